#!/usr/bin/env python3
"""Writes MANIFEST.json from props.py (single source of truth)."""
import json, os, subprocess, sys
VERIF = os.path.dirname(os.path.abspath(__file__))
sys.path.insert(0, VERIF)
from props import PROPS, NOT_APPLICABLE

hooks = subprocess.run(["git", "-C", "/repo", "log", "--format=%H %s"], stdout=subprocess.PIPE, text=True).stdout.splitlines()
hook_commits = [l.split()[0] for l in hooks if " verif hook " in " " + l.split(" ", 1)[1] + " " or l.split(" ", 1)[1].startswith("verif hook")]
hook_commits.reverse()

checks = []
for pid in sorted(PROPS):
    p = PROPS[pid]
    checks.append({
        "property_id": pid,
        "quick_cmd": "./check %s quick" % pid,
        "thorough_cmd": "./check %s thorough" % pid,
        "evidence_file": "/verif/evidence/%s.json" % pid,
        "replay_cmd_template": "./check %s --replay {path}" % pid,
        "engine": "qedsim",
        "level_claimed": {"category": p["level"], "text": p["level_text"], "design_ref": p["design_ref"]},
        "level_note": p["level_note"],
        "technique": p["technique"],
    })

m = {
    "version": 1,
    "setup_cmd": "./check build",
    "hooks": {
        "guard": "verif",
        "enable": "Go build tag: go1.26.8 test -c -tags verif (see ./check build); hook H1 links the rocksdb cgo wrapper against the system librocksdb",
        "baseline_off_cmd": "cd /repo && go test -mod=mod -json -vet=off -count=1 -timeout 25m ./...",
        "source_commits": hook_commits,
        "add_only": True,
    },
    "engines": [{
        "name": "qedsim", "path": "/verif/sim",
        "serves_properties": sorted(PROPS),
        "kind_free_text": "deterministic simulator (seeded tape, consensus environment, simulated network/disk seams, synctest bubbles, reference models, ddmin minimiser, exact replay) compiled as a Go test binary against /repo with -tags verif",
    }],
    "checks": checks,
    "not_applicable": [{"property_id": k, "reason": v} for k, v in sorted(NOT_APPLICABLE.items()) if k not in PROPS],
    "notes": "Exit codes: 0 held, 1 + VIOLATION line, 2 machinery trouble (build, watchdog, non-reproducible replay). Known findings: /verif/known_findings.json. VERIF_SEED selects the seed block.",
}
json.dump(m, open(os.path.join(VERIF, "MANIFEST.json"), "w"), indent=1)
print("wrote MANIFEST.json with %d checks, %d not_applicable, hooks %s" % (len(checks), len(m["not_applicable"]), [h[:7] for h in hook_commits]))
