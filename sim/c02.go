package qedsim

// C02 — a membership verification that succeeds is always a true membership.
// Decided on a Byzantine wire between genuine servers (states reached by World A
// fault histories) and the real client verifier: genuine answers are altered,
// recombined and forged with a seeded fault; whatever the verifier accepts
// against authentic snapshots must be a true existence claim according to the
// single-copy log model. Input-quantified; simulation contributes the reached
// states and the seeded wire fault (see DESIGN.md §8).

import (
	"encoding/json"
	"fmt"
	"sort"

	"github.com/bbva/qed/balloon"
	"github.com/bbva/qed/crypto/hashing"
	"github.com/bbva/qed/protocol"
)

var profC02 = &profile{
	nodes: []int{1, 1, 3}, steps: [2]int{10, 30}, stepsThor: [2]int{30, 120},
	w:          map[string]int{"add": 34, "rep": 8, "apply": 8, "byz": 12, "stop": 3, "start": 4, "elect": 2, "snap": 2, "lag": 2},
	pumps:      []string{"sync", "sync", "minimal"},
	digestKind: []int{0, 0, 1, 1, 2},
	trailing:   []int{0, 1, 2},
	stopModes:  []string{"clean", "crash"},
}

func init() {
	register(&Property{ID: "C02", Gen: func(seed uint64, tier string) *Tape { return genWorldA(seed, tier, "C02", profC02) },
		Exec: func(r *Run) {
			w := execWorldA(r, func(w *worldA, s Step) bool {
				if s.Op == "byz" {
					w.byzantine(w.node(s.Node), 3+s.K)
					return true
				}
				return false
			})
			r.cur = len(r.Tape.Steps)
			for _, nd := range w.e.nodes {
				w.byzantine(nd, 8)
			}
		}, Simplify: simplifyWorldA})
}

func cloneMR(m *protocol.MembershipResult) *protocol.MembershipResult {
	c := *m
	c.Hyper = map[string]hashing.Digest{}
	for k, v := range m.Hyper {
		c.Hyper[k] = append(hashing.Digest{}, v...)
	}
	c.History = map[string]hashing.Digest{}
	for k, v := range m.History {
		c.History[k] = append(hashing.Digest{}, v...)
	}
	c.KeyDigest = append(hashing.Digest{}, m.KeyDigest...)
	return &c
}

func sortedKeys(m map[string]hashing.Digest) []string {
	ks := make([]string, 0, len(m))
	for k := range m {
		ks = append(ks, k)
	}
	sort.Strings(ks)
	return ks
}

// genuineAnswer asks nd for a membership proof and pushes it through the JSON wire.
func (w *worldA) genuineAnswer(nd *simNode, d []byte, q uint64) *protocol.MembershipResult {
	var mp *balloon.MembershipProof
	var err error
	cp := Capture(func() { mp, err = nd.rn.QueryDigestMembershipConsistency(d, q) })
	if cp != nil || err != nil || mp == nil || mp.HyperProof == nil {
		return nil
	}
	b, err := json.Marshal(protocol.ToMembershipResult(nil, mp))
	if err != nil {
		return nil
	}
	var mr protocol.MembershipResult
	if json.Unmarshal(b, &mr) != nil {
		return nil
	}
	return &mr
}

// judge: if the client verifier accepts answer mr for digest d against the
// authentic snapshot of version q (hyper digest of the current version), then
// the claim must be true.
func (w *worldA) judge(what string, mr *protocol.MembershipResult, d []byte, q, cv uint64) {
	r := w.r
	hyper := w.authenticHyper(cv)
	if hyper == nil || q >= w.e.rlog.Len() {
		return
	}
	snap := &balloon.Snapshot{EventDigest: d, HistoryDigest: w.e.rlog.Hist.Root(q), HyperDigest: hyper, Version: q}
	var ok bool
	cp := Capture(func() {
		p := protocol.ToBalloonProof(mr, hashing.NewSha256Hasher)
		ok = p.DigestVerify(d, snap)
	})
	r.Count("oracle.candidate_answers_judged")
	if cp != nil {
		if cp.Harness {
			r.Bug("%s\n%s", cp, cp.Stack)
		}
		r.Count("probe.verifier_panicked") // totality is C12's business
		return
	}
	if !ok {
		return
	}
	r.Count("probe.accepted")
	if !mr.Exists {
		r.Fail("accepted-implies-true", "%s: the verifier accepted an answer that claims ABSENCE of digest %x (in the log: %v) against the authentic snapshots of versions %d/%d", what, d[:4], w.e.rlog.Has(d), q, cv)
	}
	if !w.e.rlog.InsertedAt(d, mr.ActualVersion) {
		r.Fail("accepted-implies-true", "%s: the verifier accepted the claim that digest %x was inserted at version %d; the log inserted it at %v", what, d[:4], mr.ActualVersion, w.e.rlog.versions[string(d)])
	}
	if mr.ActualVersion > mr.QueryVersion {
		r.Fail("accepted-implies-true", "%s: the verifier accepted an answer whose actual version %d is later than its query version %d", what, mr.ActualVersion, mr.QueryVersion)
	}
	if mr.ActualVersion > q {
		r.Fail("accepted-implies-true", "%s: the verifier accepted, against the snapshot of version %d, a membership that only began at version %d", what, q, mr.ActualVersion)
	}
	r.Distinct("c02acc:" + what)
}

// byzantine runs the seeded tampering menu on genuine answers of node nd.
func (w *worldA) byzantine(nd *simNode, rounds int) {
	if nd == nil || !nd.up {
		return
	}
	r := w.r
	n := nd.rn.SimBalloonVersion()
	if n < 2 || (n != w.e.eventsThrough(nd.lastApplied) && n != w.e.eventsThrough(w.lastCmdIndex(nd))) {
		return
	}
	cv := n - 1
	if w.authenticHyper(cv) == nil {
		return
	}
	rng := r.StepRng(fmt.Sprintf("byz%d", nd.id))
	rl := w.e.rlog
	pickV := func() uint64 { return uint64(rng.IntN(int(n))) }
	absent := func() []byte {
		if rng.IntN(2) == 0 { // shares a long prefix with a present digest
			d := append([]byte{}, rl.Digests[pickV()]...)
			bit := 200 + rng.IntN(56)
			if rng.IntN(3) == 0 {
				bit = rng.IntN(256)
			}
			d[bit/8] ^= 1 << uint(7-bit%8)
			if !rl.Has(d) {
				return d
			}
		}
		return sha([]byte(fmt.Sprintf("absent-%d-%d", r.Tape.Seed, rng.IntN(1<<30))))
	}
	for round := 0; round < rounds; round++ {
		ev := pickV()
		d := rl.Digests[ev]
		last := ev
		for _, x := range rl.versions[string(d)] {
			if x > last && x <= cv {
				last = x
			}
		}
		q := last + uint64(rng.IntN(int(cv-last)+1))
		g := w.genuineAnswer(nd, d, q)
		if g == nil {
			continue
		}
		w.judge("genuine", g, d, q, cv) // sanity: a genuine true answer may of course be accepted
		// 1. scalar fields
		for _, f := range []string{"exists", "actual-1", "actual+1", "actual-other", "actual>query", "query-1", "query+1", "current+1", "current=0"} {
			m := cloneMR(g)
			switch f {
			case "exists":
				m.Exists = !m.Exists
			case "actual-1":
				m.ActualVersion--
			case "actual+1":
				m.ActualVersion++
			case "actual-other":
				m.ActualVersion = pickV()
			case "actual>query":
				m.ActualVersion = m.QueryVersion + 1 + uint64(rng.IntN(3))
			case "query-1":
				m.QueryVersion--
			case "query+1":
				m.QueryVersion++
			case "current+1":
				m.CurrentVersion++
			case "current=0":
				m.CurrentVersion = 0
			}
			w.judge("field "+f, m, d, q, cv)
		}
		// 2. the answer for e presented for another digest (present or absent)
		other := rl.Digests[pickV()]
		w.judge("answer-for-other-present", g, other, q, cv)
		ab := absent()
		w.judge("answer-for-absent", g, ab, q, cv)
		m := cloneMR(g)
		m.KeyDigest = ab
		w.judge("rekeyed-to-absent", m, ab, q, cv)
		m = cloneMR(g)
		m.KeyDigest = other
		w.judge("rekeyed-to-other", m, other, q, cv)
		// 3. the honest server's answer for an absent digest, as is and with Exists forced
		if ga := w.genuineAnswer(nd, ab, q); ga != nil {
			w.judge("honest-absent", ga, ab, q, cv)
			for _, av := range []uint64{ga.ActualVersion, pickV(), q} {
				m = cloneMR(ga)
				m.Exists = true
				m.ActualVersion = av
				w.judge("absent-forced-exists", m, ab, q, cv)
				// with the history part of a genuine answer for the version it names
				if gv := w.genuineAnswer(nd, rl.Digests[av%n], q); gv != nil && gv.ActualVersion <= q {
					m2 := cloneMR(m)
					m2.History = cloneMR(gv).History
					m2.ActualVersion = gv.ActualVersion
					w.judge("absent-spliced-history", m2, ab, q, cv)
				}
			}
		}
		// 4. audit-path entries: alter, drop, re-key, duplicate (sampled)
		for _, part := range []string{"hyper", "history"} {
			src := g.Hyper
			if part == "history" {
				src = g.History
			}
			keys := sortedKeys(src)
			if len(keys) == 0 {
				continue
			}
			for t := 0; t < 4; t++ {
				k := keys[rng.IntN(len(keys))]
				for _, op := range []string{"alter", "drop", "rekey", "swap"} {
					m := cloneMR(g)
					tgt := m.Hyper
					if part == "history" {
						tgt = m.History
					}
					switch op {
					case "alter":
						tgt[k][rng.IntN(len(tgt[k]))] ^= 1 << uint(rng.IntN(8))
					case "drop":
						delete(tgt, k)
					case "rekey":
						v := tgt[k]
						delete(tgt, k)
						tgt[k+"0"] = v
					case "swap":
						k2 := keys[rng.IntN(len(keys))]
						tgt[k], tgt[k2] = tgt[k2], tgt[k]
						if k == k2 {
							continue
						}
					}
					w.judge(fmt.Sprintf("%s-path %s", part, op), m, d, q, cv)
				}
			}
		}
		// 5. splice: hyper part of one genuine answer onto the history part of another
		ev2 := pickV()
		if g2 := w.genuineAnswer(nd, rl.Digests[ev2], cv); g2 != nil {
			m := cloneMR(g)
			m.History = cloneMR(g2).History
			w.judge("splice-history-of-other", m, d, q, cv)
			m = cloneMR(g2)
			m.Hyper = cloneMR(g).Hyper
			m.KeyDigest = append(hashing.Digest{}, d...)
			w.judge("splice-hyper-of-this", m, d, q, cv)
		}
		// 5b. forge an EARLIER query version: the genuine hyper part (actual version
		// a) with the history part of a genuine answer for the last event of an
		// earlier tree q < a — its audit path holds the left siblings along the
		// right spine of tree q, which is all a recomputation that never reaches
		// leaf a needs. Judged against the authentic snapshot of version q.
		if a := g.ActualVersion; a > 0 {
			for t := 0; t < 3; t++ {
				qq := uint64(rng.IntN(int(a)))
				if gq := w.genuineAnswer(nd, rl.Digests[qq], qq); gq != nil {
					m := cloneMR(g)
					m.QueryVersion = qq
					m.History = cloneMR(gq).History
					w.judge("forged-earlier-query-version", m, d, qq, cv)
					// the adversary knows every node of tree qq: offer them all, the
					// verifier picks what it looks up
					if qq <= 300 {
						m3 := cloneMR(m)
						m3.History = map[string]hashing.Digest{}
						for h := uint16(0); (uint64(1) << h) <= 2*(qq+1); h++ {
							for i := uint64(0); i <= qq; i += uint64(1) << h {
								m3.History[fmt.Sprintf("%d|%d", i, h)] = rl.Hist.node(i, h, qq)
							}
						}
						w.judge("forged-earlier-query-version-all-nodes", m3, d, qq, cv)
						dd := append([]byte{}, d...)
						dd[31] ^= 1
						if !rl.Has(dd) {
							m4 := cloneMR(m3)
							m4.KeyDigest = dd
							w.judge("forged-earlier-query-version-all-nodes-absent-twin", m4, dd, qq, cv)
						}
					}
					// the same for a never-added digest that shares d's leaf
					dd := append([]byte{}, d...)
					dd[31] ^= 1
					if !rl.Has(dd) {
						m2 := cloneMR(m)
						m2.KeyDigest = dd
						w.judge("forged-earlier-query-version-absent-twin", m2, dd, qq, cv)
					}
				}
			}
		}
		// 6. empty / oversize paths
		m = cloneMR(g)
		m.Hyper = map[string]hashing.Digest{}
		w.judge("empty-hyper", m, d, q, cv)
		m = cloneMR(g)
		m.History = map[string]hashing.Digest{}
		w.judge("empty-history", m, d, q, cv)
		r.Count("fault.byzantine_rounds")
	}
}
