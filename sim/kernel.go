package qedsim

// Simulation kernel: one seed -> one tape of intent-level steps -> one exactly
// repeatable execution. Everything random is drawn either while *generating*
// the tape (from the run PRNG) or, during execution, from a sub-PRNG derived
// from (seed, step index, purpose) so that deleting steps while minimising does
// not shift the draws of the surviving steps.

import (
	"crypto/sha256"
	"encoding/hex"
	"encoding/json"
	"fmt"
	"hash"
	"math/rand/v2"
	"os"
	"regexp"
	"runtime"
	"sort"
	"strings"
)

// Step is one intent-level step of a tape. Steps are interpreted against the
// current state and are no-ops when their precondition is false, which is what
// makes a tape shrinkable by deletion.
type Step struct {
	Op   string `json:"op"`
	Node int    `json:"node,omitempty"`
	K    int    `json:"k,omitempty"`
	X    int64  `json:"x,omitempty"`
	Y    int64  `json:"y,omitempty"`
	Kind string `json:"kind,omitempty"`
	Data string `json:"data,omitempty"`
}

func (s Step) String() string {
	b, _ := json.Marshal(s)
	return string(b)
}

// Tape is a complete, self-contained description of one simulated run.
type Tape struct {
	Harness string           `json:"harness"`
	Prop    string           `json:"property"`
	Seed    uint64           `json:"seed"`
	Tier    string           `json:"tier"`
	Cfg     map[string]int64 `json:"cfg"`
	Steps   []Step           `json:"steps"`
	// filled in for replay files
	Violation *Violation `json:"violation,omitempty"`
	Digest    string     `json:"digest,omitempty"`
}

const HarnessVersion = "qedsim-1"

// Violation is what an oracle reports.
type Violation struct {
	Prop   string `json:"property"`
	Oracle string `json:"oracle"`
	Msg    string `json:"msg"`
	Step   int    `json:"step"`
}

func (v *Violation) Class() string { return v.Prop + "/" + v.Oracle }

// Result of executing one tape.
type Result struct {
	Prop       string           `json:"property"`
	Seed       uint64           `json:"seed"`
	Violation  *Violation       `json:"violation,omitempty"`
	Known      string           `json:"known,omitempty"` // id of the known finding that ended the run
	Counts     map[string]int64 `json:"counts"`          // faults fired, probes, oracle evaluations
	Distinct   []string         `json:"distinct,omitempty"`
	Digest     string           `json:"digest"`
	Steps      int              `json:"steps"`
	SimSteps   int64            `json:"sim_steps"`
	SimTimeMs  int64            `json:"sim_time_ms"`
	Sample     interface{}      `json:"sample,omitempty"`
	HarnessErr string           `json:"harness_err,omitempty"`
	Replay     string           `json:"replay,omitempty"`
	MinSteps   int              `json:"min_steps,omitempty"`
}

// violationPanic is the sentinel thrown by Run.Fail.
type violationPanic struct{ v *Violation }

// harnessPanic signals trouble in the machinery (exit 2), never a violation.
type harnessPanic struct{ msg string }

// Run is the per-execution context handed to a world.
type Run struct {
	Tape     *Tape
	Prop     string
	cur      int // current step index
	h        hash.Hash
	counts   map[string]int64
	distinct map[string]struct{}
	Verbose  bool
	sample   interface{}
	simSteps int64
	simTime  int64
	cleanup  []func()
	logLines int
	knownHit string
	// failNote, if set, may prepend a context marker to violation messages
	failNote func() string
}

func newRun(t *Tape) *Run {
	return &Run{Tape: t, Prop: t.Prop, h: sha256.New(), counts: map[string]int64{}, distinct: map[string]struct{}{}}
}

// Cfg returns a configuration knob of the tape (0 if absent).
func (r *Run) Cfg(name string) int64 { return r.Tape.Cfg[name] }

// Logf appends to the step log (hashed; printed when verbose). Never draws.
func (r *Run) Logf(format string, a ...interface{}) {
	s := fmt.Sprintf(format, a...)
	fmt.Fprintf(r.h, "%d|%s\n", r.cur, s)
	r.logLines++
	if r.Verbose {
		fmt.Fprintf(os.Stderr, "[%03d] %s\n", r.cur, s)
	}
}

// Count bumps a named counter (fault fired, probe hit, oracle evaluated).
func (r *Run) Count(name string) { r.counts[name]++ }
func (r *Run) CountN(name string, n int64) {
	r.counts[name] += n
}

// Distinct records a distinct non-trivial case key (hashed to keep it short).
func (r *Run) Distinct(key string) {
	s := sha256.Sum256([]byte(key))
	r.distinct[hex.EncodeToString(s[:6])] = struct{}{}
}

// Sample keeps one written-out case for the evidence file.
func (r *Run) Sample(v interface{}) {
	if r.sample == nil {
		r.sample = v
	}
}

// Tick advances simulated step counter / simulated time (ms).
func (r *Run) Tick(steps int64, ms int64) { r.simSteps += steps; r.simTime += ms }

// Fail reports a violation and ends the run.
func (r *Run) Fail(oracle string, format string, a ...interface{}) {
	msg := fmt.Sprintf(format, a...)
	if r.failNote != nil {
		msg = r.failNote() + msg
	}
	r.Logf("VIOLATION %s: %s", oracle, msg)
	panic(violationPanic{&Violation{Prop: r.Prop, Oracle: oracle, Msg: msg, Step: r.cur}})
}

// Guard runs one independent scenario of a sweep. A violation that matches an
// open known finding ends that scenario only: it is counted and the sweep goes
// on, so that one known defect does not hide the rest of the enumeration. Any
// other violation propagates.
func (r *Run) Guard(f func()) {
	defer func() {
		if x := recover(); x != nil {
			if vp, ok := x.(violationPanic); ok {
				if fd := matchFinding(vp.v); fd != nil {
					r.Count("known." + fd.ID)
					r.knownHit = fd.ID
					return
				}
			}
			panic(x)
		}
	}()
	f()
}

// Bug reports trouble in the harness itself.
func (r *Run) Bug(format string, a ...interface{}) {
	panic(harnessPanic{fmt.Sprintf(format, a...)})
}

// OnCleanup registers a function run after the execution ends (LIFO).
func (r *Run) OnCleanup(f func()) { r.cleanup = append(r.cleanup, f) }

// StepRng gives a PRNG for execution-time draws of the current step.
func (r *Run) StepRng(purpose string) *rand.Rand {
	return subRng(r.Tape.Seed, uint64(r.cur), purpose)
}

// NamedRng gives a PRNG tied to a name only (stable under any tape edit).
func (r *Run) NamedRng(purpose string) *rand.Rand { return subRng(r.Tape.Seed, 1<<40, purpose) }

func subRng(seed, idx uint64, purpose string) *rand.Rand {
	h := sha256.Sum256([]byte(fmt.Sprintf("%d/%d/%s", seed, idx, purpose)))
	a := uint64(0)
	b := uint64(0)
	for i := 0; i < 8; i++ {
		a = a<<8 | uint64(h[i])
		b = b<<8 | uint64(h[8+i])
	}
	return rand.New(rand.NewPCG(a, b))
}

// NewRng is the run PRNG used by generators.
func NewRng(seed uint64, prop string) *rand.Rand { return subRng(seed, 0, "gen/"+prop) }

// Property is the registry entry of one check.
type Property struct {
	ID string
	// Gen draws a tape from the seed.
	Gen func(seed uint64, tier string) *Tape
	// Exec interprets a tape. It reports violations through r.Fail.
	Exec func(r *Run)
	// Simplify proposes simpler variants of one step (may be nil).
	Simplify func(s Step) []Step
	// Bubble: Exec must run inside a synctest bubble.
	Bubble bool
	// PanicOracle: name of the oracle charged with a panic escaping from code
	// under test ("" = "no-internal-failure").
	PanicOracle string
}

var registry = map[string]*Property{}

func register(p *Property) { registry[p.ID] = p }

// isHarnessFrame reports whether a panic originated in harness code rather than
// in code under test: the innermost non-runtime frame decides.
func panicOrigin(stack []uintptr) (fn string, file string, harness bool) {
	frames := runtime.CallersFrames(stack)
	for {
		f, more := frames.Next()
		name := f.Function
		if name != "" && !strings.HasPrefix(name, "runtime.") && !strings.HasPrefix(name, "internal/") &&
			!strings.Contains(name, "qedsim.(*Run).Fail") && !strings.Contains(name, "qedsim.(*Run).Bug") &&
			!strings.Contains(name, "qedsim.(*simLogger)") && !strings.Contains(name, "qedsim.(*faultStore)") &&
			!strings.HasPrefix(name, "testing/synctest") && !strings.HasPrefix(name, "testing.") {
			return name, fmt.Sprintf("%s:%d", f.File, f.Line), strings.HasPrefix(name, "qedsim.")
		}
		if !more {
			break
		}
	}
	return "?", "?", true
}

// CapturedPanic describes a panic recovered at a seam (goroutine boundary, apply call…).
type CapturedPanic struct {
	Value   interface{}
	Fn      string
	Where   string
	Harness bool
	Stack   string
}

func (c *CapturedPanic) String() string {
	return fmt.Sprintf("panic %q in %s (%s)", fmt.Sprint(c.Value), c.Fn, c.Where)
}

// Capture runs f and returns a description of any panic it raised. Violation
// and harness sentinels are re-thrown untouched.
func Capture(f func()) (cp *CapturedPanic) {
	defer func() {
		if x := recover(); x != nil {
			switch x.(type) {
			case violationPanic, harnessPanic:
				panic(x)
			}
			pcs := make([]uintptr, 64)
			n := runtime.Callers(3, pcs)
			fn, where, harness := panicOrigin(pcs[:n])
			buf := make([]byte, 16<<10)
			buf = buf[:runtime.Stack(buf, false)]
			cp = &CapturedPanic{Value: x, Fn: fn, Where: where, Harness: harness, Stack: string(buf)}
		}
	}()
	f()
	return nil
}

// execute runs one tape to completion and classifies how it ended.
func execute(p *Property, t *Tape, verbose bool) (res *Result) {
	r := newRun(t)
	r.Verbose = verbose
	res = &Result{Prop: t.Prop, Seed: t.Seed, Steps: len(t.Steps)}
	finish := func() {
		for i := len(r.cleanup) - 1; i >= 0; i-- {
			func() {
				defer func() { recover() }()
				r.cleanup[i]()
			}()
		}
		res.Counts = r.counts
		keys := make([]string, 0, len(r.distinct))
		for k := range r.distinct {
			keys = append(keys, k)
		}
		sort.Strings(keys)
		res.Distinct = keys
		res.Digest = hex.EncodeToString(r.h.Sum(nil))[:24]
		res.SimSteps = r.simSteps
		res.SimTimeMs = r.simTime
		res.Sample = r.sample
		if res.Known == "" {
			res.Known = r.knownHit
		}
	}
	func() {
		defer func() {
			if x := recover(); x != nil {
				switch v := x.(type) {
				case violationPanic:
					res.Violation = v.v
				case harnessPanic:
					res.HarnessErr = v.msg
				default:
					pcs := make([]uintptr, 64)
					n := runtime.Callers(2, pcs)
					fn, where, harness := panicOrigin(pcs[:n])
					buf := make([]byte, 16<<10)
					buf = buf[:runtime.Stack(buf, false)]
					if harness {
						res.HarnessErr = fmt.Sprintf("panic in harness: %v at %s %s\n%s", x, fn, where, buf)
					} else {
						or := p.PanicOracle
						if or == "" {
							or = "no-internal-failure"
						}
						msg := fmt.Sprintf("panic %q in %s", trunc(fmt.Sprint(x), 160), fn)
						r.Logf("VIOLATION %s: %s", or, msg)
						res.Violation = &Violation{Prop: t.Prop, Oracle: or, Msg: msg, Step: r.cur}
						if verbose {
							fmt.Fprintf(os.Stderr, "%s\n", buf)
						}
					}
				}
			}
		}()
		p.Exec(r)
	}()
	finish()
	return res
}

func trunc(s string, n int) string {
	if len(s) > n {
		return s[:n] + "…"
	}
	return s
}

// ---- known findings -------------------------------------------------------

// Finding is an entry of /verif/known_findings.json.
type Finding struct {
	ID       string `json:"id"`
	Property string `json:"property"`
	Status   string `json:"status"` // "open" | "fixed"
	Oracle   string `json:"oracle"`
	Match    string `json:"match"` // regexp on the violation message
	What     string `json:"what"`
	Commit   string `json:"commit,omitempty"`
	re       *regexp.Regexp
}

var findings []*Finding

func loadFindings(path string) error {
	b, err := os.ReadFile(path)
	if err != nil {
		if os.IsNotExist(err) {
			return nil
		}
		return err
	}
	var wrap struct {
		Findings []*Finding `json:"findings"`
	}
	if err := json.Unmarshal(b, &wrap); err != nil {
		return err
	}
	for _, f := range wrap.Findings {
		if f.Status != "open" {
			continue // a fixed entry suppresses nothing
		}
		re, err := regexp.Compile(f.Match)
		if err != nil {
			return fmt.Errorf("finding %s: %v", f.ID, err)
		}
		f.re = re
		findings = append(findings, f)
	}
	return nil
}

func matchFinding(v *Violation) *Finding {
	for _, f := range findings {
		if f.Property == v.Prop && (f.Oracle == "" || f.Oracle == v.Oracle) && f.re.MatchString(v.Msg) {
			return f
		}
	}
	return nil
}

// ---- minimiser -------------------------------------------------------------

// minimise shrinks the tape while the same violation class recurs.
func minimise(p *Property, t *Tape, class string, budget int, runner func(*Tape) *Result) *Tape {
	best := cloneTape(t)
	tries := 0
	same := func(c *Tape) bool {
		if tries >= budget {
			return false
		}
		tries++
		res := runner(c)
		return res.HarnessErr == "" && res.Violation != nil && res.Violation.Class() == class
	}
	// truncate after the violating step first
	if res := runner(best); res.Violation != nil && res.Violation.Step+1 < len(best.Steps) {
		c := cloneTape(best)
		c.Steps = c.Steps[:res.Violation.Step+1]
		if same(c) {
			best = c
		}
	}
	// ddmin over steps
	n := 2
	for len(best.Steps) >= 2 && tries < budget {
		chunk := (len(best.Steps) + n - 1) / n
		reduced := false
		for start := 0; start < len(best.Steps); start += chunk {
			end := start + chunk
			if end > len(best.Steps) {
				end = len(best.Steps)
			}
			c := cloneTape(best)
			c.Steps = append(append([]Step{}, best.Steps[:start]...), best.Steps[end:]...)
			if same(c) {
				best = c
				if n > 2 {
					n--
				}
				reduced = true
				break
			}
		}
		if !reduced {
			if chunk <= 1 {
				break
			}
			n *= 2
			if n > len(best.Steps) {
				n = len(best.Steps)
			}
		}
	}
	// simplify surviving steps
	if p.Simplify != nil {
		for pass := 0; pass < 3; pass++ {
			changed := false
			for i := 0; i < len(best.Steps) && tries < budget; i++ {
				for _, alt := range p.Simplify(best.Steps[i]) {
					c := cloneTape(best)
					c.Steps[i] = alt
					if same(c) {
						best = c
						changed = true
						break
					}
				}
			}
			if !changed {
				break
			}
		}
	}
	// simplify configuration knobs towards their floor (0 or 1)
	keys := make([]string, 0, len(best.Cfg))
	for k := range best.Cfg {
		keys = append(keys, k)
	}
	sort.Strings(keys)
	for _, k := range keys {
		if strings.HasPrefix(k, "fix_") || tries >= budget {
			continue
		}
		for _, alt := range []int64{0, 1, best.Cfg[k] / 2} {
			if alt >= best.Cfg[k] {
				continue
			}
			c := cloneTape(best)
			c.Cfg[k] = alt
			if same(c) {
				best = c
				break
			}
		}
	}
	return best
}

func cloneTape(t *Tape) *Tape {
	c := *t
	c.Cfg = map[string]int64{}
	for k, v := range t.Cfg {
		c.Cfg[k] = v
	}
	c.Steps = append([]Step{}, t.Steps...)
	c.Violation = nil
	return &c
}

func writeReplay(dir string, t *Tape, res *Result) (string, error) {
	c := cloneTape(t)
	c.Harness = HarnessVersion
	c.Violation = res.Violation
	c.Digest = res.Digest
	b, err := json.MarshalIndent(c, "", " ")
	if err != nil {
		return "", err
	}
	if err := os.MkdirAll(dir, 0o755); err != nil {
		return "", err
	}
	path := fmt.Sprintf("%s/%s-%d.json", dir, t.Prop, t.Seed)
	return path, os.WriteFile(path, b, 0o644)
}

func readReplay(path string) (*Tape, error) {
	b, err := os.ReadFile(path)
	if err != nil {
		return nil, err
	}
	var t Tape
	if err := json.Unmarshal(b, &t); err != nil {
		return nil, err
	}
	if t.Cfg == nil {
		t.Cfg = map[string]int64{}
	}
	return &t, nil
}
