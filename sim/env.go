package qedsim

// The consensus environment of World A: a deterministic, single-threaded
// re-implementation of the part of hashicorp/raft v1.1.1 that decides what an
// FSM and a log store get to see (log matching, commitment, snapshot and
// compaction, entries-vs-snapshot, restart semantics, vote rule). Derived from
// raft.go appendEntries/installSnapshot/processLogs, fsm.go runFSM,
// snapshot.go takeSnapshot/compactLogs, api.go restoreSnapshot. It has no
// timers and no goroutines: every place where raft would wait for a timer or
// a network event is an event the tape may pick. The FSM (consensus.RaftNode),
// its RocksDB store and the raft log store are the real ones.

import (
	"bytes"
	"fmt"
	"io"
	"os"
	"sort"

	"github.com/bbva/qed/balloon"
	"github.com/bbva/qed/consensus"
	"github.com/bbva/qed/protocol"
	"github.com/bbva/qed/storage/rocks"
	"github.com/hashicorp/raft"
)

type raftSnap struct {
	index, term uint64
	payload     []byte
}

const (
	roleFollower = 0
	roleLeader   = 1
)

type future struct {
	index uint64
	done  bool
	resp  interface{}
	err   error
}

type simNode struct {
	env    *Env
	id     int
	name   string
	dbDir  string
	logDir string
	// durable across restarts
	snaps    []raftSnap
	inConfig bool
	created  bool
	// volatile
	up           bool
	raw          *rocks.RocksDBStore
	store        *faultStore
	rlog         consensus.SimRaftLog
	rn           *consensus.RaftNode
	ch           chan *protocol.Snapshot
	role         int
	term         uint64
	commitIndex  uint64
	lastApplied  uint64
	fsmIndex     uint64
	fsmTerm      uint64
	lastSnapIdx  uint64
	lastSnapTerm uint64
	lastLogIdx   uint64
	lastLogTerm  uint64
	nextIndex    map[int]uint64
	matchIndex   map[int]uint64
	leaderID     int
	opens        int
	appliedCmds  int // commands applied in this incarnation
	// pendingInstall: index of a snapshot that raft persisted on this node while
	// the FSM's Restore (state transfer) for it has not completed; tainted: the
	// node restarted and its start-up Restore trusted such a snapshot.
	pendingInstall uint64
	tainted        bool
	// what this node's FSM durably holds, as far as the environment can tell:
	// number of events after the last successful apply / restore
	emitted []*protocol.Snapshot // snapshots pushed to the sender channel (C17 hand-off)
	// seqAfter: number of events held -> the store's WAL sequence number right
	// after the apply that reached it (only for applies done on this node)
	seqAfter map[uint64]uint64
}

type committedEntry struct {
	term uint64
	typ  raft.LogType
	data []byte
	// for add commands accepted by R-log
	isAdd bool
	base  uint64
	m     int
}

type ack struct {
	index uint64
	snaps []*balloon.Snapshot
	node  int
}

// Env is one simulated cluster.
type Env struct {
	r       *Run
	nodes   []*simNode
	leader  int
	term    uint64
	pending map[uint64]*future
	// the single-copy committed log
	committed    map[uint64]*committedEntry
	maxCommitted uint64
	rlog         *RLog
	eventsAt     map[uint64]uint64 // raft index -> number of events in R-log after that index
	acks         []ack
	issued       map[uint64]*balloon.Snapshot // version -> first snapshot issued by any node for it
	baseDir      string
	logger       *simLogger
	byRN         map[*consensus.RaftNode]*simNode
	// policy of the synchronous pump used by Propose (set per step)
	pumpKind string
	pumpRng  func(n int) int
	// stream fault for the next fetch
	streamFault string
	streamK     int
	fatal       []string
	// onApplied is called after every successful apply of an add command
	onApplied func(nd *simNode, idx uint64, ce *committedEntry, snaps []*balloon.Snapshot, err error)
	// onCrashInApply decides what an escaped panic in Apply means
	allowPoison bool
	destroyed   bool
}

func newEnv(r *Run, n int) *Env {
	base, err := os.MkdirTemp(scratchBase(), "qedsim-env-")
	if err != nil {
		r.Bug("mkdtemp: %v", err)
	}
	e := &Env{r: r, leader: -1, term: 1, pending: map[uint64]*future{}, committed: map[uint64]*committedEntry{},
		rlog: NewRLog(), eventsAt: map[uint64]uint64{}, issued: map[uint64]*balloon.Snapshot{}, baseDir: base,
		logger: newSimLogger(), byRN: map[*consensus.RaftNode]*simNode{}}
	r.OnCleanup(e.destroy)
	for i := 0; i < n; i++ {
		e.addNode(true)
	}
	return e
}

// destroy stops every node (crash style) and removes the cluster's files.
func (e *Env) destroy() {
	if e.destroyed {
		return
	}
	e.destroyed = true
	for _, nd := range e.nodes {
		if nd.up {
			func() {
				defer func() { recover() }()
				e.stopNode(nd, "crash")
			}()
		}
	}
	os.RemoveAll(e.baseDir)
}

func (e *Env) addNode(inConfig bool) *simNode {
	i := len(e.nodes)
	nd := &simNode{env: e, id: i, name: fmt.Sprintf("n%d", i), inConfig: inConfig,
		dbDir: fmt.Sprintf("%s/n%d/db", e.baseDir, i), logDir: fmt.Sprintf("%s/n%d/wal", e.baseDir, i), leaderID: -1}
	os.MkdirAll(nd.dbDir, 0o755)
	os.MkdirAll(nd.logDir, 0o755)
	e.nodes = append(e.nodes, nd)
	return nd
}

func (e *Env) configSize() int {
	n := 0
	for _, nd := range e.nodes {
		if nd.inConfig {
			n++
		}
	}
	return n
}

// ---- node lifecycle --------------------------------------------------------

// startNode mirrors NewRaftNodeWithLogger + raft.NewRaft for the FSM half.
func (e *Env) startNode(nd *simNode) {
	if nd.up {
		return
	}
	trimMemory()
	raw, err := rocks.NewRocksDBStore(nd.dbDir, 0)
	if err != nil {
		e.r.Fail("node-open", "node %s: cannot open its store: %v", nd.name, err)
	}
	nd.raw = raw
	nd.store = &faultStore{inner: raw, fired: func(p string) { e.r.Count("fault." + p) }}
	rl, err := consensus.NewSimRaftLog(nd.logDir, false)
	if err != nil {
		raw.Close()
		e.r.Fail("node-open", "node %s: cannot open its raft log: %v", nd.name, err)
	}
	nd.rlog = rl
	nd.ch = make(chan *protocol.Snapshot, 1<<14)
	var rn *consensus.RaftNode
	cp := Capture(func() {
		rn, err = consensus.NewSimRaftNode(nd.name, nd.store, nd.ch, e.logger, e)
	})
	if cp != nil || err != nil {
		raw.Close()
		rl.Close()
		nd.raw, nd.rlog, nd.store = nil, nil, nil
		if cp != nil {
			if cp.Harness {
				e.r.Bug("%s\n%s", cp, cp.Stack)
			}
			e.r.Fail("node-open", "node %s: opening the node panicked: %s", nd.name, cp)
		}
		e.r.Fail("node-open", "node %s: opening the node failed: %v", nd.name, err)
	}
	nd.rn = rn
	e.byRN[rn] = nd
	nd.opens++
	e.r.Count("node.opens")
	if !nd.created {
		// bootstrap: configuration entry at index 1, term 1, on every initial member
		if nd.inConfig {
			if err := rl.StoreLog(&raft.Log{Index: 1, Term: 1, Type: raft.LogConfiguration, Data: []byte("bootstrap")}); err != nil {
				e.r.Bug("bootstrap: %v", err)
			}
		}
		rl.SetUint64([]byte("CurrentTerm"), 1)
		nd.created = true
	}
	// volatile raft state
	nd.role, nd.commitIndex, nd.lastApplied, nd.fsmIndex, nd.fsmTerm = roleFollower, 0, 0, 0, 0
	nd.lastSnapIdx, nd.lastSnapTerm, nd.leaderID, nd.appliedCmds = 0, 0, -1, 0
	nd.nextIndex, nd.matchIndex = nil, nil
	t, err := rl.GetUint64([]byte("CurrentTerm"))
	if err != nil {
		t = 0
	}
	nd.term = t
	li, _ := rl.LastIndex()
	nd.lastLogIdx, nd.lastLogTerm = li, 0
	if li > 0 {
		var l raft.Log
		if err := rl.GetLog(li, &l); err != nil {
			e.r.Fail("raft-log", "node %s: LastIndex()=%d but GetLog fails: %v", nd.name, li, err)
		}
		nd.lastLogTerm = l.Term
	}
	// restoreSnapshot(): newest to oldest, n.raft == nil
	for i := len(nd.snaps) - 1; i >= 0; i-- {
		s := nd.snaps[i]
		var rerr error
		cp := Capture(func() { rerr = rn.Restore(io.NopCloser(bytes.NewReader(s.payload))) })
		if cp != nil {
			e.failPanic(nd, "start-up Restore", cp)
		}
		if rerr != nil {
			e.r.Logf("%s: start-up restore of snapshot %d failed: %v", nd.name, s.index, rerr)
			continue
		}
		nd.lastApplied, nd.lastSnapIdx, nd.lastSnapTerm = s.index, s.index, s.term
		if nd.pendingInstall != 0 && nd.pendingInstall == s.index {
			nd.tainted = true
			e.r.Count("probe.startup_trusts_unfinished_install")
		}
		e.r.Count("probe.startup_restore")
		break
	}
	rn.SimSetRunning(true)
	nd.up = true
	e.r.Logf("%s: started (term %d, lastLog %d/%d, lastApplied %d, snap %d)", nd.name, nd.term, nd.lastLogIdx, nd.lastLogTerm, nd.lastApplied, nd.lastSnapIdx)
}

func (e *Env) failPanic(nd *simNode, what string, cp *CapturedPanic) {
	if cp.Harness {
		e.r.Bug("%s\n%s", cp, cp.Stack)
	}
	if _, ok := cp.Value.(crashSentinel); ok {
		e.r.Bug("unexpected crash sentinel in %s", what)
	}
	e.r.Fail("no-internal-failure", "node %s: %s failed internally: %s", nd.name, what, cp)
}

// stopNode stops a node: "clean" = RaftNode.Close(true); "crash" = process kill
// (all Go state abandoned, raw RocksDB handles closed: RocksDB does not flush
// memtables on close when the WAL is on, so reopening replays the WAL as after
// a kill).
func (e *Env) stopNode(nd *simNode, mode string) {
	if !nd.up {
		return
	}
	nd.up = false
	if e.leader == nd.id {
		e.leader = -1
		e.failPending(raft.ErrRaftShutdown)
	}
	nd.role = roleFollower
	delete(e.byRN, nd.rn)
	consensus.SimForget(nd.rn)
	if mode == "clean" {
		nd.rn.SimSetRunning(false)
		var err error
		cp := Capture(func() { err = nd.rn.Close(true) })
		if cp != nil {
			nd.rlog.Close()
			e.failPanic(nd, "Close", cp)
		}
		if err != nil {
			nd.rlog.Close()
			e.r.Fail("clean-stop", "node %s: Close returned %v", nd.name, err)
		}
		nd.rlog.Close()
		e.r.Count("fault.clean_stop")
	} else {
		nd.raw.Close()
		nd.rlog.Close()
		e.r.Count("fault.crash")
	}
	nd.rn, nd.raw, nd.store, nd.rlog = nil, nil, nil, nil
	e.r.Logf("%s: stopped (%s)", nd.name, mode)
}

func (e *Env) failPending(err error) {
	keys := make([]uint64, 0, len(e.pending))
	for k := range e.pending {
		keys = append(keys, k)
	}
	sort.Slice(keys, func(i, j int) bool { return keys[i] < keys[j] })
	for _, k := range keys {
		f := e.pending[k]
		if !f.done {
			f.done, f.err = true, err
		}
	}
	e.pending = map[uint64]*future{}
}

// ---- raft helpers ----------------------------------------------------------

func (nd *simNode) lastEntry() (uint64, uint64) {
	if nd.lastLogIdx >= nd.lastSnapIdx {
		return nd.lastLogIdx, nd.lastLogTerm
	}
	return nd.lastSnapIdx, nd.lastSnapTerm
}

func (nd *simNode) lastIndex() uint64 {
	if nd.lastLogIdx > nd.lastSnapIdx {
		return nd.lastLogIdx
	}
	return nd.lastSnapIdx
}

func (nd *simNode) setTerm(t uint64) {
	if t != nd.term {
		nd.term = t
		nd.rlog.SetUint64([]byte("CurrentTerm"), t)
	}
}

// canElect evaluates raft's vote rule with lastIndex = max(log, snapshot).
func (e *Env) canElect(c *simNode) bool {
	if !c.up || !c.inConfig {
		return false
	}
	ci, ct := c.lastEntry()
	votes := 0
	for _, v := range e.nodes {
		if !v.up || !v.inConfig {
			continue
		}
		vi, vt := v.lastEntry()
		if v == c || vt < ct || (vt == ct && vi <= ci) {
			votes++
		}
	}
	return votes > e.configSize()/2
}

func (e *Env) elect(c *simNode) bool {
	if e.leader == c.id || !e.canElect(c) {
		return false
	}
	if e.leader >= 0 {
		old := e.nodes[e.leader]
		old.role = roleFollower
		e.failPending(raft.ErrLeadershipLost)
	}
	e.term++
	ci, ct := c.lastEntry()
	for _, v := range e.nodes {
		if !v.up || !v.inConfig {
			continue
		}
		vi, vt := v.lastEntry()
		if v == c || vt < ct || (vt == ct && vi <= ci) {
			v.setTerm(e.term)
			v.role = roleFollower
		}
	}
	c.role = roleLeader
	c.leaderID = c.id
	e.leader = c.id
	c.nextIndex, c.matchIndex = map[int]uint64{}, map[int]uint64{}
	// noop of the new term
	idx := c.lastIndex() + 1
	if err := c.rlog.StoreLog(&raft.Log{Index: idx, Term: e.term, Type: raft.LogNoop}); err != nil {
		e.r.Fail("raft-log", "node %s: StoreLog(noop %d) failed: %v", c.name, idx, err)
	}
	c.lastLogIdx, c.lastLogTerm = idx, e.term
	for _, v := range e.nodes {
		if v != c {
			c.nextIndex[v.id] = idx // = lastIndex before the noop + 1
			c.matchIndex[v.id] = 0
		}
	}
	e.r.Count("fault.election")
	e.r.Logf("%s: elected leader of term %d (noop at %d)", c.name, e.term, idx)
	e.recalcCommit()
	return true
}

// proposeOn appends an entry to the leader's log.
func (e *Env) proposeOn(l *simNode, typ raft.LogType, data []byte) *future {
	idx := l.lastIndex() + 1
	if err := l.rlog.StoreLog(&raft.Log{Index: idx, Term: l.term, Type: typ, Data: data}); err != nil {
		e.r.Fail("raft-log", "node %s: StoreLog(%d) failed: %v", l.name, idx, err)
	}
	l.lastLogIdx, l.lastLogTerm = idx, l.term
	f := &future{index: idx}
	e.pending[idx] = f
	e.recalcCommit()
	return f
}

func (e *Env) getLog(nd *simNode, idx uint64) (*raft.Log, error) {
	var l raft.Log
	if err := nd.rlog.GetLog(idx, &l); err != nil {
		return nil, err
	}
	if l.Index != idx {
		e.r.Fail("raft-log", "node %s: GetLog(%d) returned an entry with index %d", nd.name, idx, l.Index)
	}
	return &l, nil
}

// replicate performs one AppendEntries or InstallSnapshot exchange leader -> f.
// Returns what happened: "entries", "reject", "install-ok", "install-fail", "noop".
func (e *Env) replicate(f *simNode, k int, installFault string, installK int) string {
	if e.leader < 0 {
		return "noop"
	}
	l := e.nodes[e.leader]
	if !l.up || !f.up || f == l || !f.inConfig {
		return "noop"
	}
	next := l.nextIndex[f.id]
	if next == 0 {
		next = 1
	}
	if f.term > l.term {
		return "noop" // cannot happen with a single leader; defensive
	}
	// setPreviousLog
	var prevIdx, prevTerm uint64
	switch {
	case next == 1:
	case next-1 == l.lastSnapIdx:
		prevIdx, prevTerm = l.lastSnapIdx, l.lastSnapTerm
	default:
		pl, err := e.getLog(l, next-1)
		if err != nil {
			return e.install(l, f, installFault, installK)
		}
		prevIdx, prevTerm = pl.Index, pl.Term
	}
	// setNewLogs
	if k < 1 {
		k = 1
	}
	var entries []*raft.Log
	for i := next; i <= l.lastLogIdx && len(entries) < k; i++ {
		en, err := e.getLog(l, i)
		if err != nil {
			return e.install(l, f, installFault, installK)
		}
		entries = append(entries, en)
	}
	// ---- follower side (appendEntries)
	f.setTerm(l.term)
	f.role = roleFollower
	f.leaderID = l.id
	respLast := f.lastIndex()
	fail := func(why string) string {
		n := next - 1
		if respLast+1 < n {
			n = respLast + 1
		}
		if n < 1 {
			n = 1
		}
		l.nextIndex[f.id] = n
		e.r.Count("probe.append_rejected")
		e.r.Logf("%s -> %s: append rejected (%s), nextIndex %d", l.name, f.name, why, n)
		return "reject"
	}
	if prevIdx > 0 {
		li, lt := f.lastEntry()
		var pt uint64
		if prevIdx == li && prevIdx != f.lastSnapIdx {
			pt = lt
		} else if prevIdx == f.lastSnapIdx {
			// Deviation from raft v1.1.1, which only consults the snapshot when it
			// is the *last* entry: with tiny TrailingLogs a follower that compacted
			// up to its snapshot but still holds an uncommitted suffix would reject
			// every append for ever (a liveness limitation of raft itself, not of
			// QED). Matching against the snapshot yields the FSM call sequence raft
			// produces with a larger TrailingLogs.
			pt = f.lastSnapTerm
		} else {
			pl, err := e.getLog(f, prevIdx)
			if err != nil {
				return fail("no prev")
			}
			pt = pl.Term
		}
		if pt != prevTerm {
			return fail("prev term")
		}
	}
	if len(entries) > 0 {
		lastLogIdx := f.lastLogIdx
		var newEntries []*raft.Log
		for i, en := range entries {
			if en.Index > lastLogIdx {
				newEntries = entries[i:]
				break
			}
			se, err := e.getLog(f, en.Index)
			if err != nil {
				e.r.Logf("%s: failed to get log entry %d", f.name, en.Index)
				return "reject-noadjust"
			}
			if en.Term != se.Term {
				if en.Index <= f.commitIndex {
					e.r.Bug("environment would truncate a committed entry %d on %s", en.Index, f.name)
				}
				if err := f.rlog.DeleteRange(en.Index, lastLogIdx); err != nil {
					e.r.Fail("raft-log", "node %s: DeleteRange(%d,%d) failed: %v", f.name, en.Index, lastLogIdx, err)
				}
				e.r.Count("probe.conflict_truncation")
				newEntries = entries[i:]
				break
			}
		}
		if n := len(newEntries); n > 0 {
			if err := f.rlog.StoreLogs(newEntries); err != nil {
				e.r.Fail("raft-log", "node %s: StoreLogs failed: %v", f.name, err)
			}
			f.lastLogIdx, f.lastLogTerm = newEntries[n-1].Index, newEntries[n-1].Term
		}
	}
	if l.commitIndex > 0 && l.commitIndex > f.commitIndex {
		idx := l.commitIndex
		if li := f.lastIndex(); li < idx {
			idx = li
		}
		f.commitIndex = idx
	}
	// ---- leader side
	m := prevIdx + uint64(len(entries))
	if m > l.matchIndex[f.id] {
		l.matchIndex[f.id] = m
	}
	l.nextIndex[f.id] = m + 1
	e.r.Logf("%s -> %s: appended %d entries after %d, follower commit %d", l.name, f.name, len(entries), prevIdx, f.commitIndex)
	e.recalcCommit()
	return "entries"
}

func (e *Env) recalcCommit() {
	if e.leader < 0 {
		return
	}
	l := e.nodes[e.leader]
	var ms []uint64
	for _, v := range e.nodes {
		if !v.inConfig {
			continue
		}
		if v == l {
			ms = append(ms, l.lastLogIdx)
		} else {
			ms = append(ms, l.matchIndex[v.id])
		}
	}
	sort.Slice(ms, func(i, j int) bool { return ms[i] < ms[j] })
	q := ms[(len(ms)-1)/2]
	if q > l.commitIndex {
		en, err := e.getLog(l, q)
		if err != nil || en.Term != l.term {
			return
		}
		l.commitIndex = q
		e.noteCommitted(l, q)
	}
}

// noteCommitted extends the single-copy log and R-log.
func (e *Env) noteCommitted(l *simNode, upto uint64) {
	for idx := e.maxCommitted + 1; idx <= upto; idx++ {
		en, err := e.getLog(l, idx)
		if err != nil {
			e.r.Bug("leader %s lost committed entry %d: %v", l.name, idx, err)
		}
		ce := &committedEntry{term: en.Term, typ: en.Type, data: en.Data}
		if en.Type == raft.LogCommand {
			ds, ok, derr := consensus.SimDecodeAdd(en.Data)
			if ok && derr == nil && len(ds) > 0 {
				ce.isAdd = true
				ce.m = len(ds)
				bs := make([][]byte, len(ds))
				for i := range ds {
					bs[i] = ds[i]
				}
				ce.base = e.rlog.Append(bs)
			}
		}
		e.committed[idx] = ce
		e.eventsAt[idx] = e.rlog.Len()
		e.maxCommitted = idx
	}
}

// eventsThrough returns the number of events R-log holds after raft index idx.
func (e *Env) eventsThrough(idx uint64) uint64 {
	if idx == 0 {
		return 0
	}
	if idx > e.maxCommitted {
		idx = e.maxCommitted
	}
	return e.eventsAt[idx]
}

// applyOne applies the next committed entry on nd (processLogs + runFSM.commit).
// Returns false if there is nothing to apply or the node crashed.
func (e *Env) applyOne(nd *simNode) bool {
	if !nd.up || nd.lastApplied >= nd.commitIndex {
		return false
	}
	idx := nd.lastApplied + 1
	en, err := e.getLog(nd, idx)
	if err != nil {
		e.r.Fail("raft-log", "node %s: committed entry %d is missing from its log store: %v", nd.name, idx, err)
	}
	if ce := e.committed[idx]; ce != nil {
		if ce.term != en.Term || ce.typ != en.Type || !bytes.Equal(ce.data, en.Data) {
			e.r.Fail("raft-log", "node %s: log store returned a different entry at committed index %d (term %d type %d %dB, committed term %d type %d %dB)",
				nd.name, idx, en.Term, en.Type, len(en.Data), ce.term, ce.typ, len(ce.data))
		}
	} else {
		e.r.Bug("apply of an index the environment does not know as committed: %d", idx)
	}
	var resp interface{}
	switch en.Type {
	case raft.LogCommand:
		cp := Capture(func() { resp = nd.rn.Apply(en) })
		if cp != nil {
			if cs, ok := cp.Value.(crashSentinel); ok {
				e.r.Logf("%s: crashed at %s while applying %d", nd.name, cs.point, idx)
				e.stopNode(nd, "crash")
				return false
			}
			if cp.Harness {
				e.r.Bug("%s\n%s", cp, cp.Stack)
			}
			if isInjectedErrorPanic(cp) {
				// QED's documented reaction to a failed store write is to panic = crash
				e.r.Logf("%s: panicked on injected store error while applying %d", nd.name, idx)
				e.r.Count("probe.store_error_panic")
				e.stopNode(nd, "crash")
				return false
			}
			e.r.Logf("%s: PANIC in Apply(%d): %s", nd.name, idx, cp)
			if e.allowPoison {
				e.stopNode(nd, "crash")
				panic(poisonApply{nd.id, idx, cp})
			}
			e.failPanic(nd, fmt.Sprintf("Apply of committed entry %d", idx), cp)
		}
		nd.fsmIndex, nd.fsmTerm = en.Index, en.Term
		nd.appliedCmds++
	case raft.LogConfiguration:
		cp := Capture(func() { nd.rn.StoreConfiguration(en.Index, raft.Configuration{}) })
		if cp != nil {
			e.failPanic(nd, "StoreConfiguration", cp)
		}
		nd.fsmIndex, nd.fsmTerm = en.Index, en.Term
	}
	nd.lastApplied = idx
	e.r.Tick(1, 0)
	if en.Type == raft.LogCommand {
		snaps, aerr := consensus.SimResponse(resp)
		if e.onApplied != nil {
			e.onApplied(nd, idx, e.committed[idx], snaps, aerr)
		}
		if f := e.pending[idx]; f != nil && e.leader == nd.id {
			f.done, f.resp = true, resp
			delete(e.pending, idx)
		}
	} else if f := e.pending[idx]; f != nil && e.leader == nd.id {
		f.done = true
		delete(e.pending, idx)
	}
	return true
}

type poisonApply struct {
	node int
	idx  uint64
	cp   *CapturedPanic
}

func isInjectedErrorPanic(cp *CapturedPanic) bool {
	s := fmt.Sprint(cp.Value)
	return bytes.Contains([]byte(s), []byte(errInjected.Error()))
}

// ---- snapshots and compaction ---------------------------------------------

type memSink struct {
	buf       bytes.Buffer
	closed    bool
	cancelled bool
}

func (m *memSink) Write(p []byte) (int, error) { return m.buf.Write(p) }
func (m *memSink) Close() error                { m.closed = true; return nil }
func (m *memSink) ID() string                  { return "sim" }
func (m *memSink) Cancel() error               { m.cancelled = true; return nil }

func (e *Env) compactLogs(nd *simNode, snapIdx, trailing uint64) {
	minLog, err := nd.rlog.FirstIndex()
	if err != nil {
		e.r.Fail("raft-log", "node %s: FirstIndex failed: %v", nd.name, err)
	}
	if nd.lastLogIdx <= trailing {
		return
	}
	maxLog := snapIdx
	if x := nd.lastLogIdx - trailing; x < maxLog {
		maxLog = x
	}
	if minLog == 0 || minLog > maxLog {
		return
	}
	if err := nd.rlog.DeleteRange(minLog, maxLog); err != nil {
		e.r.Fail("raft-log", "node %s: DeleteRange(%d,%d) failed: %v", nd.name, minLog, maxLog, err)
	}
	e.r.Count("fault.log_compaction")
	e.r.Logf("%s: compacted log %d..%d", nd.name, minLog, maxLog)
}

// takeSnapshot mirrors runFSM.snapshot + takeSnapshot + compactLogs.
func (e *Env) takeSnapshot(nd *simNode, trailing uint64) bool {
	if !nd.up || nd.fsmIndex == 0 {
		return false
	}
	var snap raft.FSMSnapshot
	var err error
	cp := Capture(func() { snap, err = nd.rn.Snapshot() })
	if cp != nil {
		e.failPanic(nd, "Snapshot", cp)
	}
	if err != nil {
		e.r.Logf("%s: Snapshot failed: %v", nd.name, err)
		return false
	}
	sink := &memSink{}
	cp = Capture(func() { err = snap.Persist(sink) })
	if cp != nil {
		e.failPanic(nd, "Persist", cp)
	}
	snap.Release()
	if err != nil || !sink.closed || sink.cancelled {
		e.r.Fail("snapshot-persist", "node %s: Persist did not complete: err=%v closed=%v cancelled=%v", nd.name, err, sink.closed, sink.cancelled)
	}
	nd.snaps = append(nd.snaps, raftSnap{nd.fsmIndex, nd.fsmTerm, append([]byte{}, sink.buf.Bytes()...)})
	if len(nd.snaps) > 2 {
		nd.snaps = nd.snaps[len(nd.snaps)-2:]
	}
	nd.lastSnapIdx, nd.lastSnapTerm = nd.fsmIndex, nd.fsmTerm
	e.r.Count("fault.raft_snapshot")
	e.r.Logf("%s: snapshot at %d/%d", nd.name, nd.fsmIndex, nd.fsmTerm)
	e.compactLogs(nd, nd.fsmIndex, trailing)
	return true
}

// install mirrors raft.installSnapshot on the follower: persist first, then
// FSM.Restore (which makes QED fetch the data from the leader).
func (e *Env) install(l, f *simNode, fault string, k int) string {
	if len(l.snaps) == 0 {
		e.r.Logf("%s -> %s: needs a snapshot but the leader has none", l.name, f.name)
		return "noop"
	}
	s := l.snaps[len(l.snaps)-1]
	f.setTerm(l.term)
	f.role = roleFollower
	f.leaderID = l.id
	// (1) the snapshot is persisted in the follower's snapshot store
	f.snaps = append(f.snaps, raftSnap{s.index, s.term, append([]byte{}, s.payload...)})
	if len(f.snaps) > 2 {
		f.snaps = f.snaps[len(f.snaps)-2:]
	}
	f.pendingInstall = s.index
	e.r.Count("fault.install_snapshot")
	e.r.Logf("%s -> %s: install snapshot %d/%d (fault=%s/%d)", l.name, f.name, s.index, s.term, fault, k)
	if fault == "crash-after-persist" {
		e.r.Count("fault.crash_after_persist")
		e.stopNode(f, "crash")
		return "install-fail"
	}
	// (2) FSM.Restore on the running follower
	e.streamFault, e.streamK = fault, k
	var rerr error
	cp := Capture(func() { rerr = f.rn.Restore(io.NopCloser(bytes.NewReader(s.payload))) })
	e.streamFault, e.streamK = "", 0
	if cp != nil {
		if cs, ok := cp.Value.(crashSentinel); ok {
			e.r.Logf("%s: crashed at %s during state transfer", f.name, cs.point)
			e.stopNode(f, "crash")
			return "install-fail"
		}
		e.failPanic(f, "live Restore (state transfer)", cp)
	}
	if rerr != nil {
		e.r.Count("probe.install_failed")
		e.r.Logf("%s: Restore failed: %v", f.name, rerr)
		return "install-fail"
	}
	// (3) success
	f.lastApplied = s.index
	f.fsmIndex, f.fsmTerm = s.index, s.term
	f.lastSnapIdx, f.lastSnapTerm = s.index, s.term
	if f.commitIndex < s.index {
		f.commitIndex = s.index
	}
	e.compactLogs(f, s.index, uint64(e.r.Cfg("trailing")))
	li, _ := f.rlog.LastIndex()
	if li == 0 {
		f.lastLogIdx, f.lastLogTerm = 0, 0
	}
	l.matchIndex[f.id] = s.index
	l.nextIndex[f.id] = s.index + 1
	f.pendingInstall, f.tainted = 0, false
	e.r.Count("probe.install_ok")
	e.recalcCommit()
	return "install-ok"
}

// ---- SimEnv: the seams RaftNode calls into ---------------------------------

// Propose plays raft.Apply(...).Error()/Response() for RaftNode.AddBulk.
func (e *Env) Propose(n *consensus.RaftNode, data []byte) (interface{}, error) {
	nd := e.byRN[n]
	if nd == nil || !nd.up {
		return nil, raft.ErrRaftShutdown
	}
	if nd.role != roleLeader || e.leader != nd.id {
		return nil, raft.ErrNotLeader
	}
	f := e.proposeOn(nd, raft.LogCommand, data)
	return e.pump(nd, f)
}

// pump drives replication, commitment and application on the leader until the
// future completes, according to the policy of the current step.
func (e *Env) pump(l *simNode, f *future) (interface{}, error) {
	kind := e.pumpKind
	if kind == "lost" {
		// leadership is lost before the entry commits; it stays in the log
		l.role = roleFollower
		e.leader = -1
		e.failPending(raft.ErrLeadershipLost)
		e.r.Count("fault.leadership_lost_before_commit")
		return nil, raft.ErrLeadershipLost
	}
	var followers []*simNode
	for _, v := range e.nodes {
		if v != l && v.up && v.inConfig {
			followers = append(followers, v)
		}
	}
	if kind == "minimal" && len(followers) > 1 && e.pumpRng != nil {
		// replicate to a bare quorum only
		need := e.configSize()/2 + 1 - 1
		for len(followers) > need {
			i := e.pumpRng(len(followers))
			followers = append(followers[:i], followers[i+1:]...)
		}
	}
	for round := 0; round < 64 && !f.done; round++ {
		for _, v := range followers {
			e.replicate(v, 1<<20, "", 0)
		}
		for l.up && l.lastApplied < l.commitIndex && !f.done {
			if !e.applyOne(l) {
				break
			}
		}
		if !l.up {
			return nil, raft.ErrRaftShutdown
		}
		if l.commitIndex < f.index && round > 8 {
			break
		}
	}
	if !f.done {
		// no quorum: the leader eventually steps down
		l.role = roleFollower
		e.leader = -1
		e.failPending(raft.ErrLeadershipLost)
		e.r.Count("fault.no_quorum_stepdown")
		return nil, raft.ErrLeadershipLost
	}
	if f.err != nil {
		return nil, f.err
	}
	if kind == "lostack" {
		e.r.Count("fault.ack_lost")
		return nil, raft.ErrLeadershipLost
	}
	return f.resp, nil
}

// Fetch plays the gRPC dial + FetchSnapshot call of attemptToFetchSnapshot.
func (e *Env) Fetch(n *consensus.RaftNode, req *consensus.FetchSnapshotRequest) (consensus.ClusterService_FetchSnapshotClient, error) {
	nd := e.byRN[n]
	if nd == nil {
		return nil, fmt.Errorf("unknown node")
	}
	if nd.leaderID < 0 || !e.nodes[nd.leaderID].up {
		return nil, fmt.Errorf("rpc error: leader unreachable")
	}
	l := e.nodes[nd.leaderID]
	var chunks [][]byte
	fault, k := e.streamFault, e.streamK
	srv := &consensus.SimServerStream{OnSend: func(c []byte) error {
		if fault == "stream-fail" && len(chunks) >= k {
			return io.ErrClosedPipe
		}
		chunks = append(chunks, c)
		return nil
	}}
	var serr error
	cp := Capture(func() { serr = l.rn.FetchSnapshot(req, srv) })
	if cp != nil {
		e.failPanic(l, "FetchSnapshot (server side)", cp)
	}
	e.r.Logf("%s: served FetchSnapshot(start=%d end=%d lastApplied=%d) -> %d chunks, err=%v", l.name, req.StartSeqNum, req.EndSeqNum, req.LastAppliedVersion, len(chunks), serr)
	e.r.CountN("probe.transfer_chunks", int64(len(chunks)))
	cs := &consensus.SimClientStream{Chunks: chunks}
	if serr != nil {
		cs.Err = fmt.Errorf("rpc error: %v", serr)
		e.r.Count("fault.stream_failed")
	}
	if fault == "crash-mid-load" {
		cs.OnRecv = func(i int) {
			if i >= k {
				e.r.Count("fault.crash_mid_load")
				panic(crashSentinel{"load.chunk"})
			}
		}
	}
	if fault == "leader-stop" {
		// the leader goes away after k chunks
		cs.OnRecv = func(i int) {
			if i >= k && cs.Err == nil {
				cs.Chunks = cs.Chunks[:min(i, len(cs.Chunks))]
				cs.Err = fmt.Errorf("rpc error: transport is closing")
				e.r.Count("fault.leader_stop_mid_stream")
			}
		}
	}
	return cs, nil
}
