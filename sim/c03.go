package qedsim

// C03 — consistency proofs verify for every version pair and expose any fork.

import (
	"fmt"

	"github.com/bbva/qed/balloon"
	"github.com/bbva/qed/crypto/hashing"
	"github.com/bbva/qed/protocol"
)

var profC03 = &profile{
	nodes: []int{1, 1, 3}, steps: [2]int{14, 40}, stepsThor: [2]int{40, 160},
	w:          map[string]int{"add": 30, "rep": 10, "apply": 10, "qinc": 14, "stop": 4, "start": 5, "elect": 3, "snap": 3, "lag": 2},
	pumps:      []string{"sync", "sync", "sync", "minimal"},
	digestKind: []int{0, 0, 0, 1, 2},
	trailing:   []int{0, 1, 2},
	stopModes:  []string{"clean", "crash"},
}

func init() {
	register(&Property{ID: "C03", Gen: func(seed uint64, tier string) *Tape { return genWorldA(seed, tier, "C03", profC03) },
		Exec: func(r *Run) { execWorldA(r, nil) }, Simplify: simplifyWorldA})
}

func verifyInc(r *Run, p *balloon.IncrementalProof, a, b []byte) bool {
	var ok bool
	cp := Capture(func() {
		ok = p.Verify(&balloon.Snapshot{HistoryDigest: a}, &balloon.Snapshot{HistoryDigest: b})
	})
	if cp != nil {
		if cp.Harness {
			r.Bug("%s\n%s", cp, cp.Stack)
		}
		// a verifier panic on a *tampered* input is C12's business; treat as rejection here
		r.Count("probe.verifier_panic_on_tampered")
		return false
	}
	return ok
}

// forkRoot: history digest at version j of a log that equals ours below
// version p and differs from p on (one digest replaced at p).
func (w *worldA) forkRoot(p, j uint64) []byte {
	f := w.e.rlog.Hist.Clone(p)
	for v := p; v <= j; v++ {
		d := w.e.rlog.Digests[v]
		if v == p {
			d = sha(append([]byte("fork:"), d...))
		}
		f.Append(d)
	}
	return f.Root(j)
}

// queryConsistency is the C03 oracle on one node.
func (w *worldA) queryConsistency(s Step) {
	nd := w.node(s.Node)
	if nd == nil || !nd.up {
		return
	}
	r := w.r
	n := nd.rn.SimBalloonVersion()
	if n == 0 {
		return
	}
	if n != w.e.eventsThrough(nd.lastApplied) && n != w.e.eventsThrough(w.lastCmdIndex(nd)) {
		return
	}
	rng := r.StepRng("qinc")
	type pair struct{ i, j uint64 }
	var pairs []pair
	if n <= 12 {
		for i := uint64(0); i < n; i++ {
			for j := i; j < n; j++ {
				pairs = append(pairs, pair{i, j})
			}
		}
	} else {
		vs := sampleVersions(rng, 0, n-1, 8)
		for k := 0; k < s.K; k++ {
			a, b := vs[rng.IntN(len(vs))], vs[rng.IntN(len(vs))]
			if a > b {
				a, b = b, a
			}
			pairs = append(pairs, pair{a, b})
		}
	}
	hist := w.e.rlog.Hist
	for _, pr := range pairs {
		i, j := pr.i, pr.j
		var ip *balloon.IncrementalProof
		var err error
		cp := Capture(func() { ip, err = nd.rn.QueryConsistency(i, j) })
		if cp != nil {
			if cp.Harness {
				r.Bug("%s\n%s", cp, cp.Stack)
			}
			r.Fail("consistency-answer", "node %s: consistency query (%d,%d) of %d failed internally: %s", nd.name, i, j, n, cp)
		}
		if err != nil {
			r.Fail("consistency-answer", "node %s: consistency query (%d,%d) of %d returned error: %v", nd.name, i, j, n, err)
		}
		if ip.Start != i || ip.End != j {
			r.Fail("consistency-answer", "node %s: asked (%d,%d), proof names (%d,%d)", nd.name, i, j, ip.Start, ip.End)
		}
		back := incrementalOverWire(r, ip)
		ri, rj := hist.Root(i), hist.Root(j)
		if !verifyInc(r, back, ri, rj) {
			r.Fail("consistency-verifies", "node %s: incremental proof (%d,%d) of %d does not verify against the authentic history digests", nd.name, i, j, n)
		}
		r.Count("oracle.consistency_verified")
		r.Distinct(fmt.Sprintf("inc:%d:%d:%d", n, i, j))
		// --- rejection half
		// (a) another version's digest on either side
		for t := 0; t < 2 && n > 1; t++ {
			o := uint64(rng.IntN(int(n)))
			if o != j && verifyInc(r, back, ri, hist.Root(o)) {
				r.Fail("fork-detected", "incremental proof (%d,%d) accepted with the history digest of version %d in place of %d", i, j, o, j)
			}
			if o != i && i != j && verifyInc(r, back, hist.Root(o), rj) {
				r.Fail("fork-detected", "incremental proof (%d,%d) accepted with the history digest of version %d in place of %d", i, j, o, i)
			}
			r.Count("oracle.foreign_digest_rejected")
		}
		// (b) a log that diverged at p <= j: its digest at j must be rejected;
		// if it diverged at p <= i its digest at i must be rejected too.
		for t := 0; t < 2; t++ {
			p := uint64(rng.IntN(int(j + 1)))
			fj := w.forkRoot(p, j)
			if verifyInc(r, back, ri, fj) {
				r.Fail("fork-detected", "incremental proof (%d,%d) accepted the end digest of a log that diverged at version %d", i, j, p)
			}
			if p <= i && i != j {
				fi := w.forkRoot(p, i)
				if verifyInc(r, back, fi, rj) {
					r.Fail("fork-detected", "incremental proof (%d,%d) accepted the start digest of a log that diverged at version %d", i, j, p)
				}
			}
			r.Count("oracle.fork_rejected")
		}
		// (c) altered versions and audit-path entries
		ir := protocol.ToIncrementalResponse(ip)
		if j+1 < n || j > 0 {
			alt := *ir
			if j > 0 && rng.IntN(2) == 0 {
				alt.End = j - 1
			} else {
				alt.End = j + 1
			}
			if alt.End >= alt.Start || true {
				p2 := toIncProofSafe(&alt)
				if p2 != nil && verifyInc(r, p2, ri, rj) && alt.End != j {
					r.Fail("tamper-detected", "incremental proof (%d,%d) still verifies with End altered to %d", i, j, alt.End)
				}
			}
		}
		if i != j {
			alt := *ir
			if i > 0 && rng.IntN(2) == 0 {
				alt.Start = i - 1
			} else {
				alt.Start = i + 1
			}
			p2 := toIncProofSafe(&alt)
			if p2 != nil && verifyInc(r, p2, ri, rj) {
				r.Fail("tamper-detected", "incremental proof (%d,%d) still verifies with Start altered to %d", i, j, alt.Start)
			}
		}
		keys := make([]string, 0, len(ir.AuditPath))
		for k := range ir.AuditPath {
			keys = append(keys, k)
		}
		sortStrings(keys)
		for t := 0; t < 3 && len(keys) > 0; t++ {
			k := keys[rng.IntN(len(keys))]
			alt := *ir
			alt.AuditPath = map[string]hashing.Digest{}
			for kk, vv := range ir.AuditPath {
				alt.AuditPath[kk] = vv
			}
			mut := append(hashing.Digest{}, alt.AuditPath[k]...)
			mut[rng.IntN(len(mut))] ^= 1 << uint(rng.IntN(8))
			alt.AuditPath[k] = mut
			p2 := toIncProofSafe(&alt)
			if p2 != nil && verifyInc(r, p2, ri, rj) {
				r.Fail("tamper-detected", "incremental proof (%d,%d) still verifies with audit-path entry %s altered", i, j, k)
			}
			r.Count("oracle.tamper_rejected")
		}
	}
	// range validation
	for _, bad := range [][2]uint64{{n, n}, {0, n}, {1, 0}, {n + 5, n + 7}} {
		if bad[0] == 1 && n < 2 {
			continue
		}
		var ip *balloon.IncrementalProof
		var err error
		cp := Capture(func() { ip, err = nd.rn.QueryConsistency(bad[0], bad[1]) })
		if cp != nil {
			if cp.Harness {
				r.Bug("%s\n%s", cp, cp.Stack)
			}
			r.Fail("range-validation", "consistency query (%d,%d) on a log of %d events failed internally: %s", bad[0], bad[1], n, cp)
		}
		if err == nil {
			r.Fail("range-validation", "consistency query (%d,%d) on a log of %d events returned a proof (%v) instead of an error", bad[0], bad[1], n, ip != nil)
		}
	}
}

func toIncProofSafe(ir *protocol.IncrementalResponse) (p *balloon.IncrementalProof) {
	cp := Capture(func() { p = protocol.ToIncrementalProof(ir, hashing.NewSha256Hasher) })
	if cp != nil {
		return nil
	}
	return p
}

func sortStrings(a []string) {
	for i := 1; i < len(a); i++ {
		for j := i; j > 0 && a[j] < a[j-1]; j-- {
			a[j], a[j-1] = a[j-1], a[j]
		}
	}
}
