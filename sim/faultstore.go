package qedsim

// faultStore wraps the real ManagedStore of a simulated node. It is the disk
// seam: crash points and store errors are injected here, and goroutines can be
// parked here (C10).

import (
	"errors"
	"io"

	"github.com/bbva/qed/metrics"
	"github.com/bbva/qed/storage"
)

// crashSentinel is thrown at an armed crash point; the environment recovers it
// at the seam where it entered QED code and turns it into a process crash.
type crashSentinel struct{ point string }

var errInjected = errors.New("injected store error")

type armedFault struct {
	point string // mutate.before | mutate.after | mutate.err.before | mutate.err.after | load.chunk
	nth   int    // fire at the nth occurrence from now (1 = next)
}

type faultStore struct {
	inner storage.ManagedStore
	armed *armedFault
	fired func(point string)
	// hooks for parked-thread scheduling (C10); nil in single-threaded worlds
	beforeMutate func()
	afterMutate  func()
	onRead       func(op string)
	beforeBackup func()
	mutates      int
}

func (s *faultStore) hit(point string) bool {
	if s.armed == nil || s.armed.point != point {
		return false
	}
	s.armed.nth--
	if s.armed.nth > 0 {
		return false
	}
	s.armed = nil
	if s.fired != nil {
		s.fired(point)
	}
	return true
}

func (s *faultStore) Mutate(m []*storage.Mutation, meta []byte) error {
	s.mutates++
	if s.beforeMutate != nil {
		s.beforeMutate()
	}
	if s.hit("mutate.before") {
		panic(crashSentinel{"mutate.before"})
	}
	if s.hit("mutate.err.before") {
		return errInjected
	}
	err := s.inner.Mutate(m, meta)
	if s.hit("mutate.after") {
		panic(crashSentinel{"mutate.after"})
	}
	if s.hit("mutate.err.after") {
		return errInjected
	}
	if s.afterMutate != nil {
		s.afterMutate()
	}
	return err
}

func (s *faultStore) GetRange(t storage.Table, a, b []byte) (storage.KVRange, error) {
	if s.onRead != nil {
		s.onRead("range")
	}
	return s.inner.GetRange(t, a, b)
}
func (s *faultStore) Get(t storage.Table, k []byte) (*storage.KVPair, error) {
	if s.onRead != nil {
		s.onRead("get")
	}
	return s.inner.Get(t, k)
}
func (s *faultStore) GetAll(t storage.Table) storage.KVPairReader { return s.inner.GetAll(t) }
func (s *faultStore) GetLast(t storage.Table) (*storage.KVPair, error) {
	return s.inner.GetLast(t)
}
func (s *faultStore) Close() error { return s.inner.Close() }
func (s *faultStore) Backup(m string) error {
	if s.beforeBackup != nil {
		s.beforeBackup()
	}
	return s.inner.Backup(m)
}
func (s *faultStore) GetBackupsInfo() []*storage.BackupInfo { return s.inner.GetBackupsInfo() }
func (s *faultStore) DeleteBackup(id uint32) error          { return s.inner.DeleteBackup(id) }
func (s *faultStore) RestoreFromBackup(id uint32, d, w string) error {
	return s.inner.RestoreFromBackup(id, d, w)
}
func (s *faultStore) LastWALSequenceNumber() uint64      { return s.inner.LastWALSequenceNumber() }
func (s *faultStore) RegisterMetrics(r metrics.Registry) {}
func (s *faultStore) FetchSnapshot(w io.WriteCloser, since, until uint64, v storage.ValidateF) error {
	return s.inner.FetchSnapshot(w, since, until, v)
}
func (s *faultStore) LoadSnapshot(r io.ReadCloser) error { return s.inner.LoadSnapshot(r) }
