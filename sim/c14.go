package qedsim

// C14 — each store back-end behaves as an atomic, ordered, per-table map.
// World B: generated operation sequences against the real BPlusTreeStore and
// the real RocksDBStore (with close+reopen as one more generated operation),
// compared operation by operation with one sorted map per table.

import (
	"bytes"
	"encoding/hex"
	"fmt"
	"math/rand/v2"
	"os"
	"sort"
	"strings"

	"github.com/bbva/qed/storage"
	"github.com/bbva/qed/storage/bplus"
	"github.com/bbva/qed/storage/rocks"
)

var allTables = []storage.Table{storage.DefaultTable, storage.HyperTable, storage.HyperCacheTable, storage.HistoryTable, storage.FSMStateTable}

func genKey(rng *rand.Rand, pool *[][]byte) []byte {
	if len(*pool) > 0 && rng.IntN(100) < 45 {
		return (*pool)[rng.IntN(len(*pool))]
	}
	var k []byte
	switch rng.IntN(10) {
	case 0:
		k = []byte{byte(rng.IntN(6))} // equals a table prefix byte
	case 1:
		k = bytes.Repeat([]byte{0xff}, 1+rng.IntN(12))
	case 2:
		k = bytes.Repeat([]byte{0x00}, 1+rng.IntN(4))
	case 3, 4: // history-like: 8-byte index, 2-byte height
		k = make([]byte, 10)
		k[7] = byte(rng.IntN(8))
		k[9] = byte(rng.IntN(3))
	case 5: // hyper-like: 2-byte height, 32-byte index
		k = make([]byte, 34)
		k[1] = byte(200 + rng.IntN(56))
		k[2] = byte(rng.IntN(256))
	case 6:
		k = []byte{0xab}
	case 7:
		k = []byte{0xff, byte(rng.IntN(256))}
	default:
		k = make([]byte, 1+rng.IntN(6))
		for i := range k {
			k[i] = byte(rng.IntN(256))
		}
	}
	if rng.IntN(40) == 0 {
		k = []byte{}
	}
	*pool = append(*pool, k)
	return k
}

func init() {
	register(&Property{ID: "C14", Gen: genC14, Exec: execC14, Simplify: simplifyC14})
}

func genC14(seed uint64, tier string) *Tape {
	rng := NewRng(seed, "C14")
	n := 12 + rng.IntN(50)
	if tier == "thorough" {
		n = 40 + rng.IntN(360)
	}
	t := &Tape{Cfg: map[string]int64{}}
	// swarm: some runs use few tables (dense collisions), some all
	ntab := 1 + rng.IntN(5)
	tabs := rng.Perm(5)[:ntab]
	pickTab := func() int { return tabs[rng.IntN(len(tabs))] }
	wReopen := []int{0, 3, 8}[rng.IntN(3)]
	var pool [][]byte
	uniq := 0
	for i := 0; i < n; i++ {
		x := rng.IntN(100)
		switch {
		case x < 40:
			m := 1 + rng.IntN(12)
			if rng.IntN(3) == 0 {
				m = 1
			}
			var parts []string
			for j := 0; j < m; j++ {
				k := genKey(rng, &pool)
				uniq++
				v := fmt.Sprintf("v%d", uniq)
				if rng.IntN(15) == 0 {
					v = ""
				}
				parts = append(parts, fmt.Sprintf("%d:%s:%s", pickTab(), hex.EncodeToString(k), hex.EncodeToString([]byte(v))))
			}
			t.Steps = append(t.Steps, Step{Op: "mutate", Data: strings.Join(parts, ",")})
		case x < 55:
			t.Steps = append(t.Steps, Step{Op: "get", K: pickTab(), Data: hex.EncodeToString(genKey(rng, &pool))})
		case x < 70:
			a, b := genKey(rng, &pool), genKey(rng, &pool)
			if rng.IntN(4) != 0 && bytes.Compare(a, b) > 0 {
				a, b = b, a
			}
			t.Steps = append(t.Steps, Step{Op: "range", K: pickTab(), Data: hex.EncodeToString(a) + ":" + hex.EncodeToString(b)})
		case x < 82:
			t.Steps = append(t.Steps, Step{Op: "all", K: pickTab(), X: int64([]int{1, 2, 3, 5, 64, 1000}[rng.IntN(6)])})
		case x < 100-wReopen:
			t.Steps = append(t.Steps, Step{Op: "last", K: pickTab()})
		default:
			t.Steps = append(t.Steps, Step{Op: "reopen"})
		}
	}
	// always finish with a reopen and a full audit
	t.Steps = append(t.Steps, Step{Op: "reopen"}, Step{Op: "audit"})
	return t
}

func simplifyC14(s Step) []Step {
	var out []Step
	if s.Op == "mutate" {
		parts := strings.Split(s.Data, ",")
		if len(parts) > 1 {
			for i := range parts {
				c := s
				c.Data = strings.Join(append(append([]string{}, parts[:i]...), parts[i+1:]...), ",")
				out = append(out, c)
			}
		}
	}
	if s.Op == "all" && s.X != 1000 {
		c := s
		c.X = 1000
		out = append(out, c)
	}
	return out
}

type mapModel struct{ t [5]map[string][]byte }

func newMapModel() *mapModel {
	m := &mapModel{}
	for i := range m.t {
		m.t[i] = map[string][]byte{}
	}
	return m
}

func (m *mapModel) sortedKeys(tab int) []string {
	ks := make([]string, 0, len(m.t[tab]))
	for k := range m.t[tab] {
		ks = append(ks, k)
	}
	sort.Strings(ks)
	return ks
}

type storeUnderTest struct {
	name   string
	s      storage.Store
	reopen func() (storage.Store, error)
}

func execC14(r *Run) {
	model := newMapModel()
	dir, err := os.MkdirTemp(scratchBase(), "qedsim-c14-")
	if err != nil {
		r.Bug("mkdtemp: %v", err)
	}
	r.OnCleanup(func() { os.RemoveAll(dir) })
	rk, err := rocks.NewRocksDBStore(dir, 0)
	if err != nil {
		r.Bug("open rocks: %v", err)
	}
	stores := []*storeUnderTest{
		{name: "bplus", s: bplus.NewBPlusTreeStore()},
		{name: "rocks", s: rk, reopen: func() (storage.Store, error) { return rocks.NewRocksDBStore(dir, 0) }},
	}
	r.OnCleanup(func() {
		for _, st := range stores {
			if st.s != nil {
				st.s.Close()
			}
		}
	})
	nonTrivial := 0
	for i, st := range r.Tape.Steps {
		r.cur = i
		r.Tick(1, 0)
		switch st.Op {
		case "mutate":
			var muts []*storage.Mutation
			type kvm struct {
				tab  int
				k, v []byte
			}
			var parsed []kvm
			for _, p := range strings.Split(st.Data, ",") {
				f := strings.Split(p, ":")
				if len(f) != 3 {
					continue
				}
				var tab int
				fmt.Sscanf(f[0], "%d", &tab)
				k, _ := hex.DecodeString(f[1])
				v, _ := hex.DecodeString(f[2])
				parsed = append(parsed, kvm{tab, k, v})
			}
			if len(parsed) == 0 {
				continue
			}
			for _, s := range stores {
				muts = muts[:0]
				for _, p := range parsed {
					muts = append(muts, storage.NewMutation(allTables[p.tab], append([]byte{}, p.k...), append([]byte{}, p.v...)))
				}
				if err := s.s.Mutate(muts, []byte("meta")); err != nil {
					r.Fail("mutate-error", "%s: Mutate of %d mutations returned %v", s.name, len(muts), err)
				}
			}
			for _, p := range parsed {
				model.t[p.tab][string(p.k)] = p.v
			}
			r.Logf("mutate %d", len(parsed))
			r.Count("op.mutate")
		case "get":
			k, _ := hex.DecodeString(st.Data)
			want, ok := model.t[st.K][string(k)]
			for _, s := range stores {
				got, err := s.s.Get(allTables[st.K], k)
				switch {
				case ok && err != nil:
					r.Fail("get", "%s: Get(%s,%x) = error %v, model has %q", s.name, allTables[st.K], k, err, want)
				case ok && !bytes.Equal(got.Value, want):
					r.Fail("get", "%s: Get(%s,%x) = %q, model has %q", s.name, allTables[st.K], k, got.Value, want)
				case !ok && err != storage.ErrKeyNotFound:
					r.Fail("get", "%s: Get(%s,%x) of a missing key = (%v,%v), want ErrKeyNotFound", s.name, allTables[st.K], k, got, err)
				}
			}
			if ok {
				nonTrivial++
			}
			r.Logf("get %v", ok)
			r.Count("op.get")
		case "range":
			f := strings.Split(st.Data, ":")
			a, _ := hex.DecodeString(f[0])
			b, _ := hex.DecodeString(f[1])
			var want []string
			for _, k := range model.sortedKeys(st.K) {
				if k >= string(a) && k <= string(b) {
					want = append(want, k)
				}
			}
			for _, s := range stores {
				got, err := s.s.GetRange(allTables[st.K], a, b)
				if err != nil {
					r.Fail("range", "%s: GetRange(%s,%x,%x) error %v", s.name, allTables[st.K], a, b, err)
				}
				checkPairs(r, "range", fmt.Sprintf("%s: GetRange(%s,%x,%x)", s.name, allTables[st.K], a, b), model, st.K, want, kvRangeToPairs(got))
			}
			if len(want) > 0 {
				nonTrivial++
			}
			r.Logf("range %d", len(want))
			r.Count("op.range")
		case "all":
			want := model.sortedKeys(st.K)
			for _, s := range stores {
				got := readAll(s.s, allTables[st.K], int(st.X))
				checkPairs(r, "scan", fmt.Sprintf("%s: GetAll(%s) with buffer %d", s.name, allTables[st.K], st.X), model, st.K, want, got)
			}
			if len(want) > 0 {
				nonTrivial++
			}
			r.Logf("all %d", len(want))
			r.Count("op.all")
		case "last":
			ks := model.sortedKeys(st.K)
			for _, s := range stores {
				got, err := s.s.GetLast(allTables[st.K])
				if len(ks) == 0 {
					if err != storage.ErrKeyNotFound {
						r.Fail("last", "%s: GetLast(%s) on an empty table = (%v,%v), want ErrKeyNotFound", s.name, allTables[st.K], pairStr(got), err)
					}
					continue
				}
				wk := ks[len(ks)-1]
				if err != nil {
					r.Fail("last", "%s: GetLast(%s) = error %v, model max key %x", s.name, allTables[st.K], err, wk)
				}
				if string(got.Key) != wk || !bytes.Equal(got.Value, model.t[st.K][wk]) {
					r.Fail("last", "%s: GetLast(%s) = %s, model max is %x=%q", s.name, allTables[st.K], pairStr(got), wk, model.t[st.K][wk])
				}
			}
			if len(ks) > 0 {
				nonTrivial++
			}
			r.Logf("last %d", len(ks))
			r.Count("op.last")
		case "reopen":
			for _, s := range stores {
				if s.reopen == nil {
					continue
				}
				if err := s.s.Close(); err != nil {
					r.Fail("reopen", "%s: Close returned %v", s.name, err)
				}
				s.s = nil
				ns, err := s.reopen()
				if err != nil {
					r.Fail("reopen", "%s: reopen failed: %v", s.name, err)
				}
				s.s = ns
			}
			r.Logf("reopen")
			r.Count("fault.close_reopen")
		case "audit":
			for tab := range allTables {
				want := model.sortedKeys(tab)
				for _, s := range stores {
					got := readAll(s.s, allTables[tab], 7)
					checkPairs(r, "scan", fmt.Sprintf("%s: final GetAll(%s)", s.name, allTables[tab]), model, tab, want, got)
				}
			}
			r.Logf("audit")
		}
	}
	if nonTrivial >= 3 {
		r.Distinct("tape:" + r.Tape.stepsKey())
	}
	r.CountN("reads.nonempty", int64(nonTrivial))
	r.Sample(map[string]interface{}{"seed": r.Tape.Seed, "first_steps": firstSteps(r.Tape, 6)})
}

func (t *Tape) stepsKey() string {
	var b strings.Builder
	for _, s := range t.Steps {
		b.WriteString(s.String())
	}
	return b.String()
}

func firstSteps(t *Tape, n int) []Step {
	if len(t.Steps) < n {
		n = len(t.Steps)
	}
	return t.Steps[:n]
}

func pairStr(p *storage.KVPair) string {
	if p == nil {
		return "<nil>"
	}
	return fmt.Sprintf("%x=%q", p.Key, p.Value)
}

func kvRangeToPairs(rg storage.KVRange) []storage.KVPair { return []storage.KVPair(rg) }

func readAll(s storage.Store, t storage.Table, buf int) []storage.KVPair {
	rd := s.GetAll(t)
	defer rd.Close()
	var out []storage.KVPair
	b := make([]*storage.KVPair, buf)
	for guard := 0; guard < 100000; guard++ {
		n, err := rd.Read(b)
		for i := 0; i < n; i++ {
			out = append(out, *b[i])
		}
		if err != nil || n == 0 {
			break
		}
	}
	return out
}

func checkPairs(r *Run, oracle, what string, m *mapModel, tab int, want []string, got []storage.KVPair) {
	if len(got) != len(want) {
		r.Fail(oracle, "%s returned %d entries, model has %d (got keys %s, want %s)", what, len(got), len(want), keysOf(got), hexKeys(want))
	}
	for i := range want {
		if string(got[i].Key) != want[i] {
			r.Fail(oracle, "%s entry %d has key %x, model has %x (got keys %s, want %s)", what, i, got[i].Key, want[i], keysOf(got), hexKeys(want))
		}
		if !bytes.Equal(got[i].Value, m.t[tab][want[i]]) {
			r.Fail(oracle, "%s key %x has value %q, model has %q", what, got[i].Key, got[i].Value, m.t[tab][want[i]])
		}
	}
}

func keysOf(p []storage.KVPair) string {
	var s []string
	for i, x := range p {
		if i >= 8 {
			s = append(s, "…")
			break
		}
		s = append(s, hex.EncodeToString(x.Key))
	}
	return "[" + strings.Join(s, " ") + "]"
}

func hexKeys(k []string) string {
	var s []string
	for i, x := range k {
		if i >= 8 {
			s = append(s, "…")
			break
		}
		s = append(s, hex.EncodeToString([]byte(x)))
	}
	return "[" + strings.Join(s, " ") + "]"
}
