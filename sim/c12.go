package qedsim

// C12 — the client verifier is total: hostile answers are rejected, never crash
// it. World D: the real client.HTTPClient talks through the simulated network
// to a Byzantine server: genuine answers of a real log are mutated
// structurally on the wire (plus transport faults), and the same inputs are fed
// to protocol.ToBalloonProof+DigestVerify / ToIncrementalProof+Verify directly.
// Input-quantified; the simulation element is the Byzantine server and faulty
// transport around the real client I/O and retry code (DESIGN.md §8).

import (
	"encoding/json"
	"fmt"
	"math/rand/v2"
	"net/http"
	"runtime"
	"sort"
	"strings"
	"testing/synctest"
	"time"

	"github.com/bbva/qed/api/apihttp"
	"github.com/bbva/qed/balloon"
	"github.com/bbva/qed/client"
	"github.com/bbva/qed/crypto/hashing"
	"github.com/bbva/qed/protocol"
)

func init() {
	register(&Property{ID: "C12", Gen: genC12, Exec: execC12, Bubble: true, PanicOracle: "verifier-total"})
}

var c12Mutations = []string{"none", "drop-entry", "add-entry", "rename-entry", "dup-entry", "key-nopipe", "key-nonnum", "key-overflow", "key-empty",
	"ver-q>c", "ver-a>q", "ver-max", "ver-swap", "digest-short", "digest-long", "digest-empty", "entry-short", "entry-empty", "null-hyper", "null-history", "missing-hyper",
	"missing-history", "null-body", "array-body", "empty-obj", "string-body", "garbage", "truncate", "status-500", "status-404", "status-204", "exists-flip", "many-entries", "path-array"}
var c12Calls = []string{"membership", "digest", "autoverify", "incremental", "incautoverify", "getsnapshot", "direct-membership", "direct-incremental", "honest-beyond"}

func genC12(seed uint64, tier string) *Tape {
	rng := NewRng(seed, "C12")
	t := &Tape{Cfg: map[string]int64{}}
	t.Cfg["fix_events"] = int64(3 + rng.IntN(20))
	t.Cfg["fix_retries"] = int64(rng.IntN(2))
	n := 30 + rng.IntN(60)
	if tier == "thorough" {
		n = 100 + rng.IntN(400)
	}
	for i := 0; i < n; i++ {
		s := Step{Op: "call", Kind: c12Calls[rng.IntN(len(c12Calls))], Data: c12Mutations[rng.IntN(len(c12Mutations))], X: int64(rng.IntN(1 << 20))}
		if rng.IntN(12) == 0 {
			t.Steps = append(t.Steps, Step{Op: "mode", Kind: []string{"down", "e500", "slow", "trunc", "ok", "ok"}[rng.IntN(6)], X: int64(200 + rng.IntN(3000))})
		}
		t.Steps = append(t.Steps, s)
	}
	return t
}

// mutateJSON applies one structural mutation to a genuine JSON answer.
func mutateJSON(rng *rand.Rand, kind string, body []byte) (int, []byte) {
	status := 200
	var m map[string]interface{}
	if json.Unmarshal(body, &m) != nil {
		m = nil
	}
	pathFields := []string{"Hyper", "History", "AuditPath"}
	pick := func() (string, map[string]interface{}) {
		var have []string
		for _, f := range pathFields {
			if p, ok := m[f].(map[string]interface{}); ok && len(p) > 0 {
				have = append(have, f)
			}
		}
		if len(have) == 0 {
			return "", nil
		}
		f := have[rng.IntN(len(have))]
		return f, m[f].(map[string]interface{})
	}
	someKey := func(p map[string]interface{}) string {
		ks := make([]string, 0, len(p))
		for k := range p {
			ks = append(ks, k)
		}
		sort.Strings(ks)
		return ks[rng.IntN(len(ks))]
	}
	out := func() []byte { b, _ := json.Marshal(m); return b }
	switch kind {
	case "none":
		return status, body
	case "truncate":
		if len(body) > 2 {
			return status, body[:1+rng.IntN(len(body)-1)]
		}
	case "status-500":
		return 500, body
	case "status-404":
		return 404, body
	case "status-204":
		return 204, nil
	case "null-body":
		return status, []byte("null")
	case "array-body":
		return status, []byte("[1,2,3]")
	case "empty-obj":
		return status, []byte("{}")
	case "string-body":
		return status, []byte("\"proof\"")
	case "garbage":
		g := []string{"{\"Hyper\":{\"a\":\"b\"},\"History\":{\"1|2\":\"AAAA\"},\"QueryVersion\":3,\"ActualVersion\":1,\"CurrentVersion\":3,\"Exists\":true,\"KeyDigest\":\"AAAA\"}",
			"{\"Start\":0,\"End\":3,\"AuditPath\":{\"0|0\":\"AAAA\"}}", "{\"Start\":18446744073709551615,\"End\":0,\"AuditPath\":{}}", "{\"Snapshot\":null,\"Signature\":\"AA==\"}",
			"{\"Exists\":true,\"Hyper\":{\"\":\"\"},\"History\":{\"|\":\"\"}}", "{\"Start\":1,\"End\":2,\"AuditPath\":{\"9999999999999999999999|1\":\"AAAA\"}}"}
		return status, []byte(g[rng.IntN(len(g))])
	}
	if m == nil {
		return status, body
	}
	f, p := pick()
	switch kind {
	case "drop-entry":
		if p != nil {
			delete(p, someKey(p))
		}
	case "add-entry":
		if p != nil {
			p[fmt.Sprintf("%d|%d", rng.IntN(100), rng.IntN(10))] = "AAAAAAAAAAAAAAAAAAAAAAAAAAAAAAAAAAAAAAAAAAA="
		}
	case "rename-entry":
		if p != nil {
			k := someKey(p)
			v := p[k]
			delete(p, k)
			p[k+"1"] = v
		}
	case "dup-entry":
		if p != nil {
			k := someKey(p)
			p["0"+k] = p[k]
		}
	case "key-nopipe":
		if p != nil {
			k := someKey(p)
			v := p[k]
			delete(p, k)
			p[strings.ReplaceAll(k, "|", "")] = v
		}
	case "key-nonnum":
		if p != nil {
			k := someKey(p)
			v := p[k]
			delete(p, k)
			p["x|y"] = v
		}
	case "key-overflow":
		if p != nil {
			k := someKey(p)
			v := p[k]
			delete(p, k)
			p["99999999999999999999999|70000"] = v
		}
	case "key-empty":
		if p != nil {
			p[""] = "AAAA"
			p["|"] = "AAAA"
		}
	case "entry-short":
		if p != nil {
			p[someKey(p)] = "AAAA"
		}
	case "entry-empty":
		if p != nil {
			p[someKey(p)] = ""
		}
	case "many-entries":
		if p != nil {
			for i := 0; i < 3000; i++ {
				p[fmt.Sprintf("%d|%d", i, i%64)] = "AAAAAAAAAAAAAAAAAAAAAAAAAAAAAAAAAAAAAAAAAAA="
			}
		}
	case "path-array":
		if f != "" {
			m[f] = []interface{}{1, 2}
		}
	case "ver-q>c":
		m["QueryVersion"] = 1 << 40
		m["End"] = 1 << 40
	case "ver-a>q":
		m["ActualVersion"] = 1 << 41
		m["Start"] = 1 << 41
	case "ver-max":
		for _, k := range []string{"QueryVersion", "ActualVersion", "CurrentVersion", "Start", "End"} {
			if _, ok := m[k]; ok && rng.IntN(2) == 0 {
				m[k] = json.Number("18446744073709551615")
			}
		}
	case "ver-swap":
		m["QueryVersion"], m["ActualVersion"] = m["ActualVersion"], m["QueryVersion"]
		m["Start"], m["End"] = m["End"], m["Start"]
	case "digest-short":
		m["KeyDigest"] = "AAAA"
	case "digest-long":
		m["KeyDigest"] = strings.Repeat("AAAA", 40)
	case "digest-empty":
		m["KeyDigest"] = ""
	case "null-hyper":
		m["Hyper"] = nil
		m["AuditPath"] = nil
	case "null-history":
		m["History"] = nil
	case "missing-hyper":
		delete(m, "Hyper")
		delete(m, "AuditPath")
	case "missing-history":
		delete(m, "History")
	case "exists-flip":
		if b, ok := m["Exists"].(bool); ok {
			m["Exists"] = !b
		}
	}
	return status, out()
}

func execC12(r *Run) {
	lg := newSimLogger()
	net := newSimHTTP()
	log := newSimLog()
	view := &clusterView{up: map[string]bool{"q0": true}, nodes: []string{"q0"}, leader: "q0"}
	net.addHost("q0:8800", apihttp.NewApiHttp(&simNodeAPI{name: "q0", log: log, view: view}))
	store := newSimSnapshotStore()
	net.addHost("store:8888", store)
	nev := int(r.Cfg("fix_events"))
	if nev < 2 {
		nev = 2
	}
	var evs [][]byte
	for i := 0; i < nev; {
		k := 1 + i%3
		var bulk [][]byte
		for j := 0; j < k && i < nev; j++ {
			e := []byte(fmt.Sprintf("c12-%d-%d", r.Tape.Seed, i))
			bulk = append(bulk, e)
			evs = append(evs, e)
			i++
		}
		snaps, _ := log.add("q0", bulk)
		for _, sn := range snaps {
			ps := protocol.Snapshot(*sn)
			store.PutSnapshot(sn.Version, &protocol.SignedSnapshot{Snapshot: &ps, Signature: []byte("s")})
		}
	}
	cur := log.version() - 1
	cl, err := client.NewHTTPClient(client.SetHttpClient(&http.Client{Transport: net}), client.SetURLs("http://q0:8800"), client.SetSnapshotStoreURL("http://store:8888"),
		client.SetReadPreference(client.Any), client.SetMaxRetries(int(r.Cfg("fix_retries"))), client.SetTopologyDiscovery(false), client.SetHealthChecks(false),
		client.SetAttemptToReviveEndpoints(true), client.SetHasherFunction(hashing.NewSha256Hasher), client.SetLogger(lg), client.SetAPIKey("k"))
	if err != nil {
		r.Bug("client: %v", err)
	}
	var curMut string
	var mutRng *rand.Rand
	net.tamper = func(host, path string, status int, body []byte) (int, []byte) {
		if curMut == "" || curMut == "none" || status != 200 {
			return status, body
		}
		return mutateJSON(mutRng, curMut, body)
	}
	authentic := func(v uint64) *balloon.Snapshot {
		if v >= uint64(len(log.snaps)) {
			v = cur
		}
		s := log.snaps[v]
		return &balloon.Snapshot{Version: v, EventDigest: s.EventDigest, HistoryDigest: log.ref.Hist.Root(v), HyperDigest: log.ref.HyperAt[log.ref.CallEnd[cur]]}
	}
	guard := func(what string, f func()) {
		var ms0, ms1 runtime.MemStats
		runtime.ReadMemStats(&ms0)
		net.beginCall(40)
		t0 := time.Now()
		cp := Capture(f)
		net.beginCall(0)
		runtime.ReadMemStats(&ms1)
		if cp != nil {
			if be, ok := cp.Value.(callBudgetExceeded); ok {
				r.Fail("verifier-total", "%s made %d round trips without returning", what, be.n)
			}
			if cp.Harness {
				r.Bug("%s\n%s", cp, cp.Stack)
			}
			r.Fail("verifier-total", "%s panicked instead of rejecting: %s", what, cp)
		}
		if d := ms1.TotalAlloc - ms0.TotalAlloc; d > 256<<20 {
			r.Fail("verifier-total", "%s allocated %d MB", what, d>>20)
		}
		if d := time.Since(t0); d > 2*time.Minute {
			r.Fail("verifier-total", "%s took %v of simulated time", what, d)
		}
		synctest.Wait()
		net.take()
		r.Count("oracle.calls_returned")
	}
	for i, s := range r.Tape.Steps {
		r.cur = i
		r.Tick(1, 0)
		if s.Op == "mode" {
			h := net.hosts["q0:8800"]
			h.mode, h.delay = s.Kind, time.Duration(s.X)*time.Millisecond
			if rng := r.StepRng("mode"); rng.IntN(3) == 0 {
				net.hosts["store:8888"].mode = s.Kind
			}
			r.Count("fault.http_" + s.Kind)
			continue
		}
		rng := r.StepRng("call")
		mutRng = r.StepRng("mut")
		curMut = s.Data
		ev := evs[int(s.X)%len(evs)]
		d := sha(ev)
		ver, _ := log.ref.FirstVersion(d)
		q := ver + uint64(rng.IntN(int(cur-ver)+1))
		what := fmt.Sprintf("%s with server mutation %q", s.Kind, s.Data)
		r.Logf("CALL %s", what)
		r.Count("fault.mutation_" + s.Data)
		switch s.Kind {
		case "membership", "digest":
			guard(what, func() {
				var p *balloon.MembershipProof
				var e error
				if s.Kind == "membership" {
					p, e = cl.Membership(ev, &q)
				} else {
					p, e = cl.MembershipDigest(d, &q)
				}
				if e == nil && p != nil {
					ok, _ := cl.MembershipVerify(d, p, authentic(q))
					cl.MembershipVerify(d, p, &balloon.Snapshot{})
					cl.MembershipVerify(sha([]byte("other")), p, authentic(cur))
					if ok {
						r.Count("probe.accepted")
						if !p.Exists || !log.ref.InsertedAt(d, p.ActualVersion) || p.ActualVersion > p.QueryVersion {
							r.Fail("accepted-implies-true", "%s: the verifier accepted a false claim (exists=%v actual=%d query=%d)", what, p.Exists, p.ActualVersion, p.QueryVersion)
						}
					}
				}
			})
		case "autoverify":
			guard(what, func() { cl.MembershipAutoVerify(d, &q) })
		case "incremental":
			guard(what, func() {
				a := uint64(rng.IntN(int(cur) + 1))
				b := a + uint64(rng.IntN(int(cur-a)+1))
				p, e := cl.Incremental(a, b)
				if e == nil && p != nil {
					cl.IncrementalVerify(p, authentic(a), authentic(b))
					cl.IncrementalVerify(p, &balloon.Snapshot{}, &balloon.Snapshot{})
				}
			})
		case "incautoverify":
			guard(what, func() {
				a := uint64(rng.IntN(int(cur) + 1))
				cl.IncrementalAutoVerify(a, a+uint64(rng.IntN(int(cur-a)+1)))
			})
		case "getsnapshot":
			guard(what, func() { cl.GetSnapshot(uint64(rng.IntN(int(cur) + 3))) })
		case "honest-beyond":
			// the honest server's own answer to a query beyond the current version
			curMut = "none"
			guard("membership query beyond the current version (honest server)", func() {
				qq := cur + 1 + uint64(rng.IntN(5))
				if rng.IntN(4) == 0 {
					qq = ^uint64(0) - uint64(rng.IntN(3))
				}
				p, e := cl.MembershipDigest(d, &qq)
				if e == nil && p != nil {
					cl.MembershipVerify(d, p, authentic(cur))
				}
				cl.Incremental(0, qq)
				cl.Incremental(qq, 0)
			})
		case "direct-membership":
			mp, e := log.b.QueryDigestMembershipConsistency(d, q)
			if e != nil {
				continue
			}
			body, _ := json.Marshal(protocol.ToMembershipResult(ev, mp))
			_, mb := mutateJSON(mutRng, s.Data, body)
			guard("decode+verify of a membership answer mutated with "+s.Data, func() {
				var mr *protocol.MembershipResult
				if json.Unmarshal(mb, &mr) != nil || mr == nil {
					return
				}
				p := protocol.ToBalloonProof(mr, hashing.NewSha256Hasher)
				p.DigestVerify(d, authentic(q))
				p.Verify(ev, authentic(cur))
				p.DigestVerify(d, &balloon.Snapshot{})
			})
		case "direct-incremental":
			a := uint64(rng.IntN(int(cur) + 1))
			b := a + uint64(rng.IntN(int(cur-a)+1))
			ip, e := log.b.QueryConsistency(a, b)
			if e != nil {
				continue
			}
			body, _ := json.Marshal(protocol.ToIncrementalResponse(ip))
			_, mb := mutateJSON(mutRng, s.Data, body)
			guard("decode+verify of an incremental answer mutated with "+s.Data, func() {
				var ir *protocol.IncrementalResponse
				if json.Unmarshal(mb, &ir) != nil || ir == nil {
					return
				}
				p := protocol.ToIncrementalProof(ir, hashing.NewSha256Hasher)
				p.Verify(authentic(a), authentic(b))
				p.Verify(&balloon.Snapshot{}, &balloon.Snapshot{})
			})
		}
		curMut = ""
		r.Distinct("c12:" + s.Kind + ":" + s.Data)
	}
	cl.Close()
	synctest.Wait()
	r.Distinct("c12tape:" + r.Tape.stepsKey())
	r.Sample(map[string]interface{}{"seed": r.Tape.Seed, "events": nev, "first_steps": firstSteps(r.Tape, 6)})
}
