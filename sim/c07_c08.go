package qedsim

// C07 — any crash recovers to a prefix of the committed log, each entry applied
// once. C08(a) — stopping and restarting a node is invisible.
// Both are *fault enumerations over seeded workloads*: the tape is a workload of
// c commands; the executor sweeps every crash (resp. clean-stop) point of that
// workload, each in a fresh simulated cluster, and checks recovery.

import (
	"fmt"
)

func init() {
	register(&Property{ID: "C07", Gen: genSweep("C07"), Exec: execC07, Simplify: simplifyWorldA})
	register(&Property{ID: "C08", Gen: genSweep("C08"), Exec: execC08, Simplify: simplifyWorldA})
}

func genSweep(prop string) func(seed uint64, tier string) *Tape {
	return func(seed uint64, tier string) *Tape {
		rng := NewRng(seed, prop)
		t := &Tape{Cfg: map[string]int64{}}
		c := 2 + rng.IntN(4)
		if tier == "thorough" {
			c = 4 + rng.IntN(9)
		}
		t.Cfg["nodes"] = int64([]int{1, 3, 3}[rng.IntN(3)])
		t.Cfg["target"] = int64(rng.IntN(2)) // 0 = the leader, 1 = a follower
		t.Cfg["double"] = int64(rng.IntN(3) / 2)
		t.Cfg["transfer"] = int64(rng.IntN(2))
		// one workload in ten also gets a stop/crash point behind a log that is
		// bigger than the sizes internal buffers happen to have (cf. bigadd)
		if rng.IntN(10) == 0 {
			t.Cfg["fix_big"] = int64(1050 + rng.IntN(500))
		}
		// one workload in six contains one bulk big enough to leave the sizes that
		// per-apply buffers happen to have (hundreds of events in one command)
		bulkAt, bulkK := -1, 0
		if rng.IntN(6) == 0 {
			bulkAt, bulkK = rng.IntN(2), 250+rng.IntN(500)
		}
		for i := 0; i < c; i++ {
			if i == bulkAt {
				t.Steps = append(t.Steps, Step{Op: "add", K: bulkK, Kind: "raw", Data: "sync"})
				continue
			}
			s := Step{Op: "add", K: 1, Kind: "api", Data: "sync", X: int64([]int{0, 0, 1, 2}[rng.IntN(4)])}
			if rng.IntN(2) == 0 {
				s.K = 1 + rng.IntN(6)
			}
			if s.X == 1 {
				s.Kind = "raw"
				s.Y = int64(rng.IntN(256))
			} else if rng.IntN(4) == 0 {
				s.Kind = "http"
			}
			t.Steps = append(t.Steps, s)
		}
		return t
	}
}

type sweepScenario struct {
	kind   string // "apply" | "boundary" | "transfer" | "stop"
	a      int    // which apply (1-based) / boundary index / chunk
	point  string
	cont   string // continuation after a transfer crash: "same-leader" | "new-term"
	double bool
}

func (s sweepScenario) String() string {
	return fmt.Sprintf("%s#%d/%s/%s/double=%v", s.kind, s.a, s.point, s.cont, s.double)
}

// runWorkload plays the tape's adds on a fresh cluster with one scenario's fault
// and returns the world for final checks.
func runSweepScenario(r *Run, sc sweepScenario) (fired bool) {
	n := int(r.Cfg("nodes"))
	if n < 1 {
		n = 1
	}
	w := newWorldAN(r, n)
	defer w.e.destroy()
	e := w.e
	e.elect(e.nodes[0])
	target := e.nodes[0]
	if r.Cfg("target") == 1 && n > 1 {
		target = e.nodes[1]
	}
	r.Logf("scenario %s target=%s", sc, target.name)
	applied := 0
	_ = applied
	mode := "crash"
	if sc.kind == "stop" {
		mode = "clean"
	}
	ensureLeader := func() {
		if e.leader < 0 {
			for _, nd := range e.nodes {
				if nd.up && e.elect(nd) {
					return
				}
			}
		}
	}
	// keep followers caught up so that the target follower applies as the workload proceeds
	catchUp := func() {
		for _, nd := range e.nodes {
			if nd.up && nd.id != e.leader {
				e.replicate(nd, 64, "", 0)
				e.replicate(nd, 64, "", 0)
				for e.applyOne(nd) {
				}
			}
		}
	}
	if sc.kind == "apply" {
		target.store.armed = &armedFault{point: sc.point, nth: sc.a}
	}
	for i, s := range r.Tape.Steps {
		r.cur = i
		if s.Op != "add" {
			continue
		}
		if (sc.kind == "boundary" || sc.kind == "stop") && sc.a == i {
			e.stopNode(target, mode)
			if sc.kind == "stop" || i%2 == 0 {
				e.startNode(target) // restart at once
			}
		}
		if sc.kind == "transfer" && i == 1 && n > 1 {
			// the target follower goes down early and misses the rest
			target = e.nodes[1]
			e.stopNode(target, "crash")
		}
		ensureLeader()
		w.doAdd(s)
		ensureLeader()
		catchUp()
		if !target.up && sc.kind == "apply" && sc.double && target.opens < 3 {
			// crash again during the recovery replay
			e.startNode(target)
			target.store.armed = &armedFault{point: "mutate.after", nth: 1}
		}
	}
	r.cur = len(r.Tape.Steps)
	fired = sc.kind != "apply" || target.store == nil || target.store.armed == nil || target.opens > 1
	if !fired {
		target.store.armed = nil // the workload has fewer store writes than that
	}
	if sc.kind == "transfer" && n > 1 {
		ensureLeader()
		l := e.nodes[e.leader]
		for e.applyOne(l) {
		}
		if !e.takeSnapshot(l, 0) {
			return true // nothing to transfer in this workload
		}
		e.startNode(target)
		res := e.replicate(target, 64, sc.point, sc.a)
		if res == "entries" || res == "reject" {
			res = e.replicate(target, 64, sc.point, sc.a)
		}
		r.Logf("transfer with fault %s/%d -> %s", sc.point, sc.a, res)
		if !target.up {
			e.startNode(target)
		}
		if sc.cont == "new-term" {
			for _, nd := range e.nodes {
				if nd.up && nd.id != e.leader && nd != target && e.elect(nd) {
					break
				}
			}
		}
	}
	// recovery: restart whatever is down, deliver everything, then check
	w.heal()
	w.checkAgreement("recovered-state")
	for _, nd := range e.nodes {
		w.checkNodeVersion(nd)
		w.queryMembership(Step{Op: "qmem", Node: nd.id, K: 8})
		w.queryConsistency(Step{Op: "qinc", Node: nd.id, K: 4})
	}
	// every acknowledged snapshot is still verifiable from the recovered node
	w.checkAckedVerifiable(target)
	// subsequent adds return the reference snapshots (checked in checkApplied/checkAck)
	w.doAdd(Step{Op: "add", K: 2, Kind: "api", Data: "sync"})
	w.doAdd(Step{Op: "add", K: 1, Kind: "api", Data: "sync"})
	w.heal()
	w.checkAgreement("recovered-state")
	r.Count("sweep.scenarios")
	r.Distinct("scenario:" + sc.String() + ":" + r.Tape.stepsKey())
	return fired
}

// checkAckedVerifiable: every snapshot acknowledged to a client has a verifying
// membership proof served by nd against that very snapshot's history digest.
func (w *worldA) checkAckedVerifiable(nd *simNode) {
	if !nd.up {
		return
	}
	n := nd.rn.SimBalloonVersion()
	for v, sn := range w.acked {
		if v >= n {
			w.r.Fail("acked-survives", "snapshot of version %d was acknowledged to a client, but recovered node %s holds only %d events", v, nd.name, n)
		}
		if ref := w.e.rlog.Hist.Root(v); string(ref) != string(sn.HistoryDigest) {
			w.r.Fail("acked-survives", "acknowledged snapshot %d does not match the committed log any more", v)
		}
	}
	w.r.CountN("oracle.acked_checked", int64(len(w.acked)))
}

func sweepPlan(r *Run, stop bool) []sweepScenario {
	c := 0
	for _, s := range r.Tape.Steps {
		if s.Op == "add" {
			c++
		}
	}
	var plan []sweepScenario
	if stop {
		for i := 0; i <= c; i++ {
			plan = append(plan, sweepScenario{kind: "stop", a: i})
		}
		return plan
	}
	for a := 1; a <= c; a++ {
		for _, p := range []string{"mutate.before", "mutate.after", "mutate.err.before", "mutate.err.after"} {
			plan = append(plan, sweepScenario{kind: "apply", a: a, point: p})
		}
		if r.Cfg("double") == 1 {
			plan = append(plan, sweepScenario{kind: "apply", a: a, point: "mutate.after", double: true})
		}
	}
	for i := 0; i <= c; i++ {
		plan = append(plan, sweepScenario{kind: "boundary", a: i})
	}
	if r.Cfg("transfer") == 1 && r.Cfg("nodes") > 1 {
		for k := 0; k <= 2; k++ {
			for _, cont := range []string{"same-leader", "new-term"} {
				plan = append(plan, sweepScenario{kind: "transfer", a: k, point: "crash-mid-load", cont: cont})
				plan = append(plan, sweepScenario{kind: "transfer", a: k, point: "stream-fail", cont: cont})
			}
		}
		plan = append(plan, sweepScenario{kind: "transfer", a: 0, point: "crash-after-persist", cont: "same-leader"},
			sweepScenario{kind: "transfer", a: 0, point: "crash-after-persist", cont: "new-term"})
	}
	return plan
}

func execC07(r *Run) {
	plan := sweepPlan(r, false)
	for _, sc := range plan {
		sc := sc
		r.Guard(func() { runSweepScenario(r, sc) })
	}
	// the plan has one store write per command; if an apply writes more than
	// once there are further crash points: go on until a fault no longer fires
	c := 0
	for _, s := range r.Tape.Steps {
		if s.Op == "add" {
			c++
		}
	}
	for _, p := range []string{"mutate.before", "mutate.after"} {
		for a := c + 1; a <= c+12; a++ {
			fired := false
			sc := sweepScenario{kind: "apply", a: a, point: p}
			r.Guard(func() { fired = runSweepScenario(r, sc) })
			if !fired {
				break
			}
			r.Count("probe.extra_store_write_crash_points")
		}
	}
	r.Guard(func() { bigStopScenario(r, "crash") })
	r.Sample(map[string]interface{}{"seed": r.Tape.Seed, "commands": len(r.Tape.Steps), "nodes": r.Cfg("nodes"),
		"scenarios_enumerated": len(plan), "first_scenarios": fmt.Sprint(plan[:min(4, len(plan))]), "workload": r.Tape.Steps})
}

// bigStopScenario: stop (clean or crash) and restart behind a big log, on a
// single node and on a follower of a 3-node cluster.
func bigStopScenario(r *Run, mode string) {
	big := int(r.Cfg("fix_big"))
	if big == 0 {
		return
	}
	n := int(r.Cfg("nodes"))
	if n < 1 {
		n = 1
	}
	w := newWorldAN(r, n)
	defer w.e.destroy()
	e := w.e
	e.elect(e.nodes[0])
	target := e.nodes[n-1]
	r.Logf("scenario big-log stop (%s) of %s behind %d events", mode, target.name, big)
	w.step(Step{Op: "bigadd", K: big})
	w.heal()
	e.stopNode(target, mode)
	e.startNode(target)
	w.heal()
	w.doAdd(Step{Op: "add", K: 3, Kind: "api", Data: "sync"})
	w.doAdd(Step{Op: "add", K: 1, Kind: "api", Data: "sync"})
	w.heal()
	w.checkAgreement("recovered-state")
	for _, nd := range e.nodes {
		w.checkNodeVersion(nd)
		w.queryMembership(Step{Op: "qmem", Node: nd.id, K: 12})
		w.queryConsistency(Step{Op: "qinc", Node: nd.id, K: 4})
	}
	r.Count("sweep.big_log_scenarios")
	r.Distinct(fmt.Sprintf("big:%s:%d", mode, big))
}

func execC08(r *Run) {
	plan := sweepPlan(r, true)
	for _, sc := range plan {
		sc := sc
		r.Guard(func() { runSweepScenario(r, sc) })
	}
	r.Guard(func() { bigStopScenario(r, "clean") })
	r.Sample(map[string]interface{}{"seed": r.Tape.Seed, "commands": len(r.Tape.Steps), "nodes": r.Cfg("nodes"),
		"stop_points_enumerated": len(plan), "workload": r.Tape.Steps})
}
