package qedsim

// C01 — every added event has a verifying membership proof at every later
// version. World A; the queried node is any running replica, after any fault
// history of the profile (restarts, leadership changes, state transfer).

import (
	"bytes"
	"fmt"

	"github.com/bbva/qed/balloon"
)

var profC01 = &profile{
	nodes: []int{1, 1, 3}, steps: [2]int{14, 40}, stepsThor: [2]int{40, 160},
	w:          map[string]int{"add": 30, "rep": 10, "apply": 10, "qmem": 14, "stop": 4, "start": 5, "elect": 3, "snap": 3, "lag": 2},
	pumps:      []string{"sync", "sync", "sync", "minimal"},
	digestKind: []int{0, 0, 1, 1, 2},
	trailing:   []int{0, 1, 2},
	stopModes:  []string{"clean", "crash"},
}

func init() {
	register(&Property{ID: "C01", Gen: func(seed uint64, tier string) *Tape { return genWorldA(seed, tier, "C01", profC01) },
		Exec: func(r *Run) { execWorldA(r, nil) }, Simplify: simplifyWorldA})
}

func simplifyWorldA(s Step) []Step {
	var out []Step
	if s.Op == "add" {
		if s.K > 1 {
			c := s
			c.K = 1
			out = append(out, c)
		}
		if s.Kind != "api" || s.X != 0 {
			c := s
			c.Kind, c.X, c.Y = "api", 0, 0
			out = append(out, c)
		}
		if s.Data != "sync" {
			c := s
			c.Data = "sync"
			out = append(out, c)
		}
	}
	if s.Op == "stop" && s.Kind == "crash" {
		c := s
		c.Kind = "clean"
		out = append(out, c)
	}
	if (s.Op == "qmem" || s.Op == "qinc") && s.K > 4 {
		c := s
		c.K = 4
		out = append(out, c)
	}
	return out
}

// execWorldA interprets a World A tape; extra handles property-specific ops.
func execWorldA(r *Run, extra func(w *worldA, s Step) bool) *worldA {
	w := newWorldA(r)
	for i, s := range r.Tape.Steps {
		r.cur = i
		r.Tick(1, 0)
		if w.step(s) {
			continue
		}
		switch s.Op {
		case "qmem":
			w.queryMembership(s)
		case "qinc":
			w.queryConsistency(s)
		case "agree":
			w.checkAgreement("replicas-agree")
		default:
			if extra != nil && extra(w, s) {
				continue
			}
		}
	}
	// end of run: every running replica answers for everything it holds
	r.cur = len(r.Tape.Steps)
	switch r.Prop {
	case "C01":
		for _, nd := range w.e.nodes {
			w.queryMembership(Step{Op: "qmem", Node: nd.id, K: 24})
		}
	case "C03":
		for _, nd := range w.e.nodes {
			w.queryConsistency(Step{Op: "qinc", Node: nd.id, K: 24})
		}
	}
	w.checkAgreement("replicas-agree")
	r.Sample(map[string]interface{}{"seed": r.Tape.Seed, "nodes": len(w.e.nodes), "events": w.e.rlog.Len(),
		"committed_entries": w.e.maxCommitted, "first_steps": firstSteps(r.Tape, 8)})
	if w.e.rlog.Len() >= 3 {
		r.Distinct(fmt.Sprintf("run:%s", r.Tape.stepsKey()))
	}
	return w
}

// versionsToQuery: all pairs when the log is small, else boundary-biased sample.
func sampleVersions(rng interface{ IntN(int) int }, lo, hi uint64, k int) []uint64 {
	set := map[uint64]bool{lo: true, hi: true}
	add := func(v uint64) {
		if v >= lo && v <= hi {
			set[v] = true
		}
	}
	add(lo + 1)
	if hi > 0 {
		add(hi - 1)
	}
	for p := uint64(1); p <= hi+1 && p != 0; p <<= 1 {
		add(p)
		add(p - 1)
		add(p + 1)
	}
	var out []uint64
	for v := range set {
		out = append(out, v)
	}
	sortU64(out)
	if len(out) > k && k > 2 {
		// keep ends, sample the middle
		keep := []uint64{out[0], out[len(out)-1]}
		for len(keep) < k {
			keep = append(keep, out[1+rng.IntN(len(out)-2)])
		}
		out = keep
	}
	for i := 0; i < 3; i++ {
		if hi > lo {
			out = append(out, lo+uint64(rng.IntN(int(hi-lo+1))))
		}
	}
	return out
}

func sortU64(a []uint64) {
	for i := 1; i < len(a); i++ {
		for j := i; j > 0 && a[j] < a[j-1]; j-- {
			a[j], a[j-1] = a[j-1], a[j]
		}
	}
}

// queryMembership is the C01 oracle on one node.
func (w *worldA) queryMembership(s Step) {
	nd := w.node(s.Node)
	if nd == nil || !nd.up {
		return
	}
	r := w.r
	n := nd.rn.SimBalloonVersion()
	if n == 0 {
		return
	}
	cv := n - 1
	if n != w.e.eventsThrough(nd.lastApplied) && n != w.e.eventsThrough(w.lastCmdIndex(nd)) {
		// state not at a committed command boundary the environment knows: C05/C07's business
		return
	}
	hyper := w.authenticHyper(cv)
	if hyper == nil {
		// only possible in a run with repeated events (no reference sparse tree)
		// when the only apply that computed this state crashed before answering
		if !w.e.rlog.Repeated() {
			r.Bug("no authentic hyper digest for version %d", cv)
		}
		r.Count("probe.no_authentic_hyper_for_repeated_run")
		return
	}
	rng := r.StepRng("qmem")
	budget := s.K
	events := make([]uint64, 0, budget)
	if int(n) <= budget {
		for v := uint64(0); v < n; v++ {
			events = append(events, v)
		}
	} else {
		events = append(events, 0, cv)
		for len(events) < budget {
			events = append(events, uint64(rng.IntN(int(n))))
		}
	}
	for _, ev := range events {
		d := w.e.rlog.Digests[ev]
		first, _ := w.e.rlog.FirstVersion(d)
		// reported(e): the version the log reported for e when it was acknowledged
		// For an event inserted more than once the log reports its latest insertion.
		reported := ev
		_ = first
		for _, x := range w.e.rlog.versions[string(d)] {
			if x > reported && x <= cv {
				reported = x
			}
		}
		qs := sampleVersions(rng, reported, cv, 6)
		if int(n) <= 24 {
			qs = qs[:0]
			for q := reported; q <= cv; q++ {
				qs = append(qs, q)
			}
		}
		for _, q := range qs {
			var mp *balloon.MembershipProof
			var err error
			how := "digest+version"
			evb := w.events[string(d)]
			cp := Capture(func() {
				switch {
				case q == cv && rng.IntN(2) == 0:
					how = "digest"
					mp, err = nd.rn.QueryDigestMembership(d)
				case evb != nil && rng.IntN(3) == 0:
					how = "event+version"
					mp, err = nd.rn.QueryMembershipConsistency(evb, q)
				default:
					mp, err = nd.rn.QueryDigestMembershipConsistency(d, q)
				}
			})
			if cp != nil {
				if cp.Harness {
					r.Bug("%s\n%s", cp, cp.Stack)
				}
				r.Fail("membership-answer", "node %s: membership query (%s) for event %d at version %d of %d failed internally: %s", nd.name, how, ev, q, cv, cp)
			}
			if err != nil {
				r.Fail("membership-answer", "node %s: membership query (%s) for event %d at version %d of %d returned error: %v", nd.name, how, ev, q, cv, err)
			}
			if !mp.Exists {
				r.Fail("membership-answer", "node %s: event %d (inserted) reported as absent at version %d of %d", nd.name, ev, q, cv)
			}
			if !w.e.rlog.InsertedAt(d, mp.ActualVersion) {
				r.Fail("membership-answer", "node %s: event %d reported at actual version %d, but it was inserted at %v", nd.name, ev, mp.ActualVersion, w.e.rlog.versions[string(d)])
			}
			if mp.CurrentVersion != cv {
				r.Fail("current-version", "node %s holds %d events but reports current version %d", nd.name, n, mp.CurrentVersion)
			}
			if mp.QueryVersion != q {
				r.Fail("membership-answer", "node %s: asked at version %d, answer names query version %d", nd.name, q, mp.QueryVersion)
			}
			if mp.ActualVersion > q {
				// only possible for a repeated event queried before its last insertion
				continue
			}
			back := membershipOverWire(r, evb, mp)
			snap := &balloon.Snapshot{EventDigest: d, HistoryDigest: w.e.rlog.Hist.Root(q), HyperDigest: hyper, Version: q}
			var ok bool
			cp = Capture(func() { ok = back.DigestVerify(d, snap) })
			if cp != nil {
				if cp.Harness {
					r.Bug("%s\n%s", cp, cp.Stack)
				}
				r.Fail("membership-verifies", "verifying node %s's proof for event %d at version %d of %d failed internally: %s", nd.name, ev, q, cv, cp)
			}
			if !ok {
				// which half fails helps triage
				hOK := back.HyperProof.Verify(d, hyper)
				r.Fail("membership-verifies", "node %s: proof for event %d (actual %d) at version %d of %d does not verify against the authentic snapshot (hyper part ok=%v)", nd.name, ev, mp.ActualVersion, q, cv, hOK)
			}
			r.Count("oracle.membership_verified")
			r.Distinct(fmt.Sprintf("mem:%d:%d:%d", n, ev, q))
		}
	}
	_ = bytes.Equal
}
