package qedsim

// C10R — the data-race half of C10 ("concurrent use of the public API is free
// of data races"). This is the one sub-check that is NOT schedule-controlled:
// a seeded workload of insertions, queries, backups and info calls runs with
// real concurrency in a binary built with -race; a race report is the
// violation. The seed fixes the workload, not the interleaving, so a replay
// re-runs the workload under the race detector (happens-before based, hence
// highly but not bit-exactly reproducible). Not a registered property of its
// own: ./check C10 thorough runs it after the parked-thread check.

import (
	"encoding/json"
	"fmt"
	"runtime"
	"sync"

	"github.com/bbva/qed/consensus"
	"github.com/bbva/qed/crypto/hashing"
	"github.com/bbva/qed/protocol"
	"github.com/hashicorp/raft"
)

func init() {
	register(&Property{ID: "C10R", Gen: func(seed uint64, tier string) *Tape {
		rng := NewRng(seed, "C10R")
		return &Tape{Cfg: map[string]int64{"nodes": 1, "trailing": 2, "adds": int64(20 + rng.IntN(40)), "readers": int64(2 + rng.IntN(4))}}
	}, Exec: execC10R})
}

func execC10R(r *Run) {
	w := newWorldA(r)
	e := w.e
	nd := e.nodes[0]
	e.elect(nd)
	w.doAdd(Step{Op: "add", K: 3, Kind: "api", Data: "sync"})
	var mu sync.Mutex
	known := append([][]byte{}, e.rlog.Digests...) // digests the readers may ask for
	stop := make(chan struct{})
	var wg sync.WaitGroup
	readers := int(r.Cfg("readers"))
	for g := 0; g < readers; g++ {
		wg.Add(1)
		go func(g int) {
			defer wg.Done()
			rng := subRng(r.Tape.Seed, uint64(g), "c10r-reader")
			for i := 0; ; i++ {
				select {
				case <-stop:
					return
				default:
				}
				mu.Lock()
				d := known[rng.IntN(len(known))]
				n := uint64(len(known))
				mu.Unlock()
				Capture(func() {
					switch rng.IntN(6) {
					// the answers are consumed as the HTTP handlers consume them: encoded
					// after the call has returned and every lock is released
					case 0:
						if mp, err := nd.rn.QueryDigestMembership(d); err == nil && mp != nil {
							runtime.Gosched()
							json.Marshal(protocol.ToMembershipResult(nil, mp))
						}
					case 1:
						if mp, err := nd.rn.QueryDigestMembershipConsistency(d, uint64(rng.IntN(int(n)))); err == nil && mp != nil {
							runtime.Gosched()
							json.Marshal(protocol.ToMembershipResult(nil, mp))
						}
					case 2:
						j := uint64(rng.IntN(int(n)))
						if ip, err := nd.rn.QueryConsistency(uint64(rng.IntN(int(j+1))), j); err == nil && ip != nil {
							runtime.Gosched()
							json.Marshal(protocol.ToIncrementalResponse(ip))
						}
					case 3:
						nd.rn.Info()
						nd.rn.ListBackups()
					case 4:
						if i%7 == 0 {
							nd.rn.CreateBackup()
						}
					default:
						nd.rn.QueryMembership([]byte(fmt.Sprintf("never-%d", i)))
					}
				})
			}
		}(g)
	}
	// the writer: the only goroutine that touches the environment
	adds := int(r.Cfg("adds"))
	rng := r.NamedRng("c10r-writer")
	for i := 0; i < adds; i++ {
		k := 1 + rng.IntN(4)
		var ds []hashing.Digest
		var raw [][]byte
		for x := 0; x < k; x++ {
			d := sha(w.newEvent())
			ds = append(ds, d)
			raw = append(raw, d)
		}
		f := e.proposeOn(nd, raft.LogCommand, consensus.SimEncodeAdd(ds))
		e.pumpKind = "sync"
		e.pump(nd, f)
		e.pumpKind = ""
		mu.Lock()
		known = append(known, raw...)
		mu.Unlock()
	}
	close(stop)
	wg.Wait()
	r.Distinct(fmt.Sprintf("c10r:%d:%d:%d", r.Tape.Seed, adds, readers))
	r.Sample(map[string]interface{}{"seed": r.Tape.Seed, "adds": adds, "readers": readers})
}
