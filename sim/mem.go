package qedsim

import (
	"fmt"
	"os"
	"runtime/debug"
)

// trimMemory bounds a worker's resident memory inside one long run. Workers run
// with GOGC=off (a collected 1.15 GB BatchCache span would be re-zeroed, i.e.
// fully touched, on reuse); when the process has grown past trimMB a collection
// is forced and everything free is returned to the OS, which hands it back as
// untouched zero pages. Has no effect on the simulated execution.
var trimMB = 1400
var trims int

func init() {
	if v := os.Getenv("QEDSIM_TRIM_MB"); v != "" {
		fmt.Sscanf(v, "%d", &trimMB)
	}
}

func trimMemory() {
	if rssMB() > trimMB {
		debug.FreeOSMemory()
		trims++
	}
}

func rssMB() int {
	b, err := os.ReadFile("/proc/self/statm")
	if err != nil {
		return 0
	}
	var size, rss int
	fmt.Sscanf(string(b), "%d %d", &size, &rss)
	return rss * 4096 >> 20
}

// scratchBase is where stores of simulated nodes live: the directory the driver
// gives each worker (removed by the driver whatever happens to the worker), or
// /dev/shm for a binary run by hand.
func scratchBase() string {
	if d := os.Getenv("QEDSIM_SCRATCH"); d != "" {
		return d
	}
	return "/dev/shm"
}
