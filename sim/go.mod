module qedsim

go 1.26.8

require (
	github.com/anishathalye/porcupine v1.3.0
	github.com/bbva/qed v0.0.0
	github.com/hashicorp/memberlist v0.1.5
	github.com/hashicorp/raft v1.1.1
	github.com/prometheus/client_golang v0.9.2
)

require (
	github.com/armon/go-metrics v0.0.0-20190430140413-ec5e00d3c878 // indirect
	github.com/beorn7/perks v0.0.0-20180321164747-3a771d992973 // indirect
	github.com/cespare/xxhash v1.1.0 // indirect
	github.com/coocood/freecache v1.1.0 // indirect
	github.com/davecgh/go-spew v1.1.1 // indirect
	github.com/golang/protobuf v1.3.2 // indirect
	github.com/google/btree v1.0.0 // indirect
	github.com/hashicorp/errwrap v1.0.0 // indirect
	github.com/hashicorp/go-hclog v0.9.1 // indirect
	github.com/hashicorp/go-immutable-radix v1.0.0 // indirect
	github.com/hashicorp/go-msgpack v0.5.5 // indirect
	github.com/hashicorp/go-multierror v1.0.0 // indirect
	github.com/hashicorp/go-sockaddr v1.0.0 // indirect
	github.com/hashicorp/golang-lru v0.5.0 // indirect
	github.com/imdario/mergo v0.3.7 // indirect
	github.com/matttproud/golang_protobuf_extensions v1.0.1 // indirect
	github.com/miekg/dns v1.0.14 // indirect
	github.com/octago/sflags v0.2.0 // indirect
	github.com/pkg/errors v0.8.1 // indirect
	github.com/pmezard/go-difflib v1.0.0 // indirect
	github.com/prometheus/client_model v0.0.0-20180712105110-5c3871d89910 // indirect
	github.com/prometheus/common v0.0.0-20181126121408-4724e9255275 // indirect
	github.com/prometheus/procfs v0.0.0-20190328153300-af7bedc223fb // indirect
	github.com/sean-/seed v0.0.0-20170313163322-e2103e2c3529 // indirect
	github.com/soheilhy/cmux v0.1.4 // indirect
	github.com/spf13/cobra v0.0.5 // indirect
	github.com/spf13/pflag v1.0.3 // indirect
	github.com/stretchr/testify v1.4.0 // indirect
	golang.org/x/crypto v0.0.0-20190308221718-c2843e01d9a2 // indirect
	golang.org/x/net v0.0.0-20190923162816-aa69164e4478 // indirect
	golang.org/x/sys v0.0.0-20190924154521-2837fb4f24fe // indirect
	golang.org/x/text v0.3.2 // indirect
	google.golang.org/genproto v0.0.0-20190916214212-f660b8655731 // indirect
	google.golang.org/grpc v1.23.1 // indirect
	gopkg.in/yaml.v2 v2.2.2 // indirect
)

replace github.com/bbva/qed => /repo
