module qedsim

go 1.26.8

require (
	github.com/anishathalye/porcupine v1.3.0
	github.com/bbva/qed v0.0.0
	github.com/hashicorp/memberlist v0.1.5
	github.com/hashicorp/raft v1.1.1
	github.com/prometheus/client_golang v0.9.2
)

require (
	github.com/beorn7/perks v0.0.0-20180321164747-3a771d992973 // indirect
	github.com/davecgh/go-spew v1.1.1 // indirect
	github.com/golang/protobuf v1.3.2 // indirect
	github.com/google/btree v1.0.0 // indirect
	github.com/hashicorp/go-hclog v0.9.1 // indirect
	github.com/matttproud/golang_protobuf_extensions v1.0.1 // indirect
	github.com/pmezard/go-difflib v1.0.0 // indirect
	github.com/prometheus/client_model v0.0.0-20180712105110-5c3871d89910 // indirect
	github.com/prometheus/common v0.0.0-20181126121408-4724e9255275 // indirect
	github.com/prometheus/procfs v0.0.0-20190328153300-af7bedc223fb // indirect
	github.com/stretchr/testify v1.4.0 // indirect
	gopkg.in/yaml.v2 v2.2.2 // indirect
)

replace github.com/bbva/qed => /repo
