package qedsim

// Golden vectors of the reference trees (DESIGN.md §6): the references were
// calibrated once against the pinned tree (every C04 run compares each issued
// digest with them) and are frozen here. From then on a disagreement between
// the repository and the references is the repository's — including a change
// that moves prover and verifier together — and an accidental edit of ref.go is
// caught before any result is believed (the binary refuses to run: exit 2).

import (
	"encoding/hex"
	"fmt"
)

// history digest and hyper digest after inserting sha256("golden-0") …
// sha256("golden-i") one by one.
var refGolden = [][2]string{
	{"5c01282cdb2f447457457399dcabe5a28959fda04d81963ee0b37d1e7e960583", "9d1b2ee67eae9ed9aa674bde34ae689db6e534c4a2dd4c2f671eecfacd101941"},
	{"4d744dfe57c1e40448874adee1e1e6b5b71469b4d0073502871253e2e7234317", "c480c2e9539b0e0fec68e868fbc278dd53ae8e8dd5985a97de0e97a8af944d30"},
	{"8428c52f39facf4658f0e04fedecadc274d7b270c62690e9192faf4aedf6b0c5", "44330d2dd247756de8c5bf2d085e405217a8d5c702bab33dfcf8c64f89c5f67d"},
	{"0fddfd3ee83b68746dabbccccacb79b300159936f6a211f0090164be7920051e", "3aa8c47d409d1b82f0cbc33ae23225fed0e6d0d016c9371df8f296652a1ad6da"},
	{"16dfc243b8c16461b75c83189a1ee21fd98051532f2aeaa87d052cd8eedac66a", "ccd7e1ca4c48aa983d52a16a2f5f4ab8356b286498097b17b89f026cbb9eb152"},
	{"6f9a7b54a4b889110b1dde5a2e4a67825ed34f0ab783c16828e7f50e31c7c3ce", "aa66b1e20deb1faaa5058ed8516970b7e1c6aa4facdcb3f90d7670313f763f54"},
	{"4ce2291a5bb885646316db8fbe8b5ca7ea98591d673709f8236522b962b8bd9a", "c175a09b635ff04c2df47187fc383eb0e030391f157961c3a56817478322f67f"},
	{"493c591e83bbe28699df33d8b655c78b195be0737144e74f98e7e8d9833560bb", "55229445ce71d2777982208231ea49e3c3af9f366f7958304e69e8ff63f79e8f"},
	{"1ab2180ecd0bb849336256f2432dd07dd138046353a0112e9eb5c9f817854886", "30c01f4a9251a838cf584dbb76f63fc012ec960f175069a558168dba7dc06f83"},
}

func init() {
	l := NewRLog()
	for i, g := range refGolden {
		l.Append([][]byte{sha([]byte(fmt.Sprintf("golden-%d", i)))})
		if hex.EncodeToString(l.Hist.Root(uint64(i))) != g[0] || hex.EncodeToString(l.HyperAt[uint64(i)]) != g[1] {
			panic(fmt.Sprintf("qedsim: the reference trees no longer reproduce their golden vectors (version %d): ref.go was changed", i))
		}
	}
}
