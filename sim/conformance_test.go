package qedsim

// Environment conformance test (DESIGN.md §4.3): needs no QED code. The real
// hashicorp/raft v1.1.1 (InmemTransport, InmemStore, InmemSnapshotStore) runs
// in real time for a few seconds with a RECORDING FSM through the situations
// the consensus environment (env.go) claims to reproduce; every recorded
// per-node call sequence must be acceptable to the rules the environment
// implements (apply order, what a restart re-applies, what a snapshot index
// is, persist-then-Restore on install, a failed live Restore followed by a
// restart trusting the persisted snapshot). A mismatch means the MODEL is
// wrong: the test can only end in exit 0 or exit 2, never in a VIOLATION.

import (
	"errors"
	"flag"
	"fmt"
	"io"
	"os"
	"strings"
	"sync"
	"testing"
	"time"

	"github.com/hashicorp/raft"
)

var fConformance = flag.Bool("conformance", false, "run the raft conformance test")

type recEvent struct {
	kind  string // apply | config | snapshot | persist | restore-startup | restore-live-ok | restore-live-err | restart
	index uint64
}

type recFSM struct {
	mu       sync.Mutex
	name     string
	rec      []recEvent
	failLive bool
	live     bool
	last     uint64 // index of the last entry the FSM saw (command or configuration)
}

func (f *recFSM) add(k string, i uint64) {
	f.mu.Lock()
	f.rec = append(f.rec, recEvent{k, i})
	f.mu.Unlock()
}
func (f *recFSM) Apply(l *raft.Log) interface{} {
	f.add("apply", l.Index)
	f.last = l.Index
	return nil
}
func (f *recFSM) StoreConfiguration(index uint64, c raft.Configuration) {
	f.add("config", index)
	f.last = index
}
func (f *recFSM) Snapshot() (raft.FSMSnapshot, error) {
	f.add("snapshot", f.last)
	return recSnap{f, f.last}, nil
}
func (f *recFSM) Restore(rc io.ReadCloser) error {
	b, _ := io.ReadAll(rc)
	var idx uint64
	fmt.Sscanf(string(b), "idx=%d", &idx)
	switch {
	case !f.live:
		f.add("restore-startup", idx)
		f.last = idx
	case f.failLive:
		f.add("restore-live-err", idx)
		return errors.New("fetch failed")
	default:
		f.add("restore-live-ok", idx)
		f.last = idx
	}
	return nil
}

type recSnap struct {
	f   *recFSM
	idx uint64
}

func (s recSnap) Persist(sink raft.SnapshotSink) error {
	s.f.add("persist", s.idx)
	sink.Write([]byte(fmt.Sprintf("idx=%d", s.idx)))
	return sink.Close()
}
func (s recSnap) Release() {}

type rnode struct {
	id    raft.ServerID
	fsm   *recFSM
	logs  *raft.InmemStore
	snaps *raft.InmemSnapshotStore
	addr  raft.ServerAddress
	trans *raft.InmemTransport
	r     *raft.Raft
}

func rconf(id raft.ServerID) *raft.Config {
	c := raft.DefaultConfig()
	c.LocalID = id
	c.HeartbeatTimeout = 50 * time.Millisecond
	c.ElectionTimeout = 50 * time.Millisecond
	c.LeaderLeaseTimeout = 50 * time.Millisecond
	c.CommitTimeout = 5 * time.Millisecond
	c.SnapshotThreshold = 1 << 30
	c.TrailingLogs = 1
	c.LogOutput = io.Discard
	return c
}

func (n *rnode) start(all []*rnode) error {
	n.addr, n.trans = raft.NewInmemTransport(raft.ServerAddress(n.id))
	for _, o := range all {
		if o != n && o.trans != nil {
			n.trans.Connect(o.addr, o.trans)
			o.trans.Connect(n.addr, n.trans)
		}
	}
	n.fsm.live = false
	r, err := raft.NewRaft(rconf(n.id), n.fsm, n.logs, n.logs, n.snaps, n.trans)
	if err != nil {
		return err
	}
	n.fsm.live = true
	n.r = r
	return nil
}

func (n *rnode) stop(all []*rnode) {
	n.r.Shutdown().Error()
	for _, o := range all {
		if o != n && o.trans != nil {
			o.trans.Disconnect(n.addr)
		}
	}
	n.trans.Close()
	n.trans, n.r = nil, nil
	n.fsm.add("restart", 0)
}

// acceptable checks one node's record against the environment's rules.
// entryType gives the type of every log index (from the leader's store).
func acceptable(name string, rec []recEvent, entryType func(uint64) (raft.LogType, bool), snapIdxAtRestart []uint64) error {
	var lastApplied uint64
	incarnation := 0
	appliedSomething := false
	fsmLast := uint64(0)
	for i, ev := range rec {
		switch ev.kind {
		case "restart":
			// env.startNode: lastApplied = index of the newest local snapshot (even one
			// whose live Restore failed), else 0
			want := uint64(0)
			if incarnation < len(snapIdxAtRestart) {
				want = snapIdxAtRestart[incarnation]
			}
			incarnation++
			lastApplied, appliedSomething, fsmLast = want, false, 0
			// raft calls FSM.Restore(startup) iff a snapshot exists
			if want > 0 {
				if i+1 >= len(rec) || rec[i+1].kind != "restore-startup" || rec[i+1].index != want {
					return fmt.Errorf("%s: after a restart with a local snapshot at %d the FSM saw %v, the environment issues Restore(startup,%d)", name, want, rec[min(i+1, len(rec)-1)], want)
				}
			} else if i+1 < len(rec) && rec[i+1].kind == "restore-startup" {
				return fmt.Errorf("%s: start-up Restore without a local snapshot", name)
			}
		case "restore-startup":
		case "apply", "config":
			if ev.index <= lastApplied {
				return fmt.Errorf("%s: entry %d delivered to the FSM although lastApplied=%d (the environment never re-delivers within an incarnation)", name, ev.index, lastApplied)
			}
			for x := lastApplied + 1; x < ev.index; x++ {
				if t, ok := entryType(x); ok && (t == raft.LogCommand || t == raft.LogConfiguration) {
					return fmt.Errorf("%s: entry %d (type %d) was skipped: FSM went from %d to %d", name, x, t, lastApplied, ev.index)
				}
			}
			if t, ok := entryType(ev.index); ok {
				if (ev.kind == "apply") != (t == raft.LogCommand) {
					return fmt.Errorf("%s: entry %d of type %d reached the FSM as %s", name, ev.index, t, ev.kind)
				}
			}
			lastApplied, appliedSomething, fsmLast = ev.index, true, ev.index
		case "snapshot":
			// runFSM refuses a snapshot until something went through it in this incarnation
			if !appliedSomething {
				return fmt.Errorf("%s: Snapshot before anything was applied in this incarnation (the environment requires fsmIndex>0)", name)
			}
			if ev.index != fsmLast {
				return fmt.Errorf("%s: snapshot index bookkeeping differs", name)
			}
		case "persist":
		case "restore-live-ok":
			lastApplied, appliedSomething, fsmLast = ev.index, true, ev.index
		case "restore-live-err":
			// nothing changes; the snapshot stays in the store (checked via snapIdxAtRestart)
		}
	}
	return nil
}

func TestRaftConformance(t *testing.T) {
	if !*fConformance {
		t.Skip("run with -conformance")
	}
	fail := func(format string, a ...interface{}) {
		fmt.Fprintf(os.Stderr, "CONFORMANCE MISMATCH (the environment model is wrong): "+format+"\n", a...)
		os.Exit(2)
	}
	var all []*rnode
	for _, id := range []raft.ServerID{"a", "b", "c"} {
		all = append(all, &rnode{id: id, fsm: &recFSM{name: string(id)}, logs: raft.NewInmemStore(), snaps: raft.NewInmemSnapshotStore()})
	}
	for _, n := range all {
		if err := n.start(all); err != nil {
			fail("start: %v", err)
		}
	}
	var servers []raft.Server
	for _, n := range all {
		servers = append(servers, raft.Server{ID: n.id, Address: n.addr})
	}
	all[0].r.BootstrapCluster(raft.Configuration{Servers: servers})
	findLeader := func() *rnode {
		for i := 0; i < 200; i++ {
			time.Sleep(25 * time.Millisecond)
			for _, n := range all {
				if n.r != nil && n.r.State() == raft.Leader {
					return n
				}
			}
		}
		fail("no leader elected")
		return nil
	}
	leader := findLeader()
	apply := func(k int) {
		for i := 0; i < k; i++ {
			for try := 0; ; try++ {
				leader = findLeader()
				if err := leader.r.Apply([]byte("x"), time.Second).Error(); err == nil {
					break
				} else if try > 20 {
					fail("apply: %v", err)
				}
			}
		}
	}
	snapAt := map[string][]uint64{} // node -> snapshot index present at each restart
	restart := func(n *rnode, failLive bool) {
		ls, _ := n.snaps.List()
		idx := uint64(0)
		if len(ls) > 0 {
			idx = ls[0].Index
		}
		snapAt[string(n.id)] = append(snapAt[string(n.id)], idx)
		n.fsm.failLive = failLive
		if err := n.start(all); err != nil {
			fail("restart %s: %v", n.id, err)
		}
	}
	other := func(not ...*rnode) *rnode {
		for _, n := range all {
			skip := false
			for _, x := range not {
				if n == x {
					skip = true
				}
			}
			if !skip && n.r != nil {
				return n
			}
		}
		return nil
	}
	// 1. plain replication
	apply(3)
	time.Sleep(200 * time.Millisecond)
	// 2. follower restart without snapshot: re-applies the log from the start
	v := other(leader)
	v.stop(all)
	apply(2)
	restart(v, false)
	time.Sleep(300 * time.Millisecond)
	// 3. follower left behind past compaction: install, the live Restore FAILS
	leader = findLeader()
	v = other(leader)
	v.stop(all)
	apply(6)
	if err := leader.r.Snapshot().Error(); err != nil {
		fail("snapshot: %v", err)
	}
	restart(v, true)
	time.Sleep(500 * time.Millisecond)
	// 4. the victim's process restarts before any successful retry, and a NEW term begins
	v.stop(all)
	old := leader
	if err := old.r.LeadershipTransfer().Error(); err != nil {
		// fall back: just continue with the same leader
		_ = err
	}
	restart(v, false)
	time.Sleep(400 * time.Millisecond)
	apply(3)
	time.Sleep(400 * time.Millisecond)
	// 5. a successful install on the third node
	leader = findLeader()
	w := other(leader, v)
	if w != nil {
		w.stop(all)
		apply(4)
		leader = findLeader()
		if err := leader.r.Snapshot().Error(); err != nil && !strings.Contains(err.Error(), "nothing new") {
			fail("snapshot 2: %v", err)
		}
		restart(w, false)
		time.Sleep(500 * time.Millisecond)
		apply(2)
		time.Sleep(300 * time.Millisecond)
	}
	leader = findLeader()
	entryType := func(i uint64) (raft.LogType, bool) {
		for _, n := range all {
			var l raft.Log
			if n.logs.GetLog(i, &l) == nil {
				return l.Type, true
			}
		}
		return 0, false
	}
	checked := 0
	for _, n := range all {
		n.fsm.mu.Lock()
		rec := append([]recEvent{}, n.fsm.rec...)
		n.fsm.mu.Unlock()
		if err := acceptable(string(n.id), rec, entryType, snapAt[string(n.id)]); err != nil {
			for _, ev := range rec {
				fmt.Fprintf(os.Stderr, "   %s %s %d\n", n.id, ev.kind, ev.index)
			}
			fail("%v", err)
		}
		checked += len(rec)
	}
	// the situation of DESIGN §5.4 must really have occurred: a live Restore that
	// failed, then a restart that trusted the persisted snapshot
	seenFail, seenTrust := false, false
	for _, n := range all {
		for i, ev := range n.fsm.rec {
			if ev.kind == "restore-live-err" {
				seenFail = true
				for _, later := range n.fsm.rec[i:] {
					if later.kind == "restore-startup" && later.index == ev.index {
						seenTrust = true
					}
				}
			}
		}
	}
	for _, n := range all {
		if n.r != nil {
			n.r.Shutdown()
		}
	}
	fmt.Printf("CONFORMANCE ok: %d recorded FSM calls on 3 nodes accepted; failed-install seen=%v, restart-trusts-unfinished-install seen=%v\n", checked, seenFail, seenTrust)
	if !seenFail || !seenTrust {
		fail("the scenario did not produce the failed-install + restart situation (timing); re-run")
	}
}
