package qedsim

// Reference models, written from the published construction and calibrated
// once against the pinned tree (see DESIGN.md §6, golden vectors in
// ref_golden.go). They share nothing with the repository but SHA-256.

import (
	"bytes"
	"crypto/sha256"
	"encoding/binary"
	"math/bits"
	"sort"
)

func H(parts ...[]byte) []byte {
	h := sha256.New()
	for _, p := range parts {
		h.Write(p)
	}
	return h.Sum(nil)
}

// ---- R-hist ---------------------------------------------------------------

func hpos(i uint64, h uint16) []byte {
	b := make([]byte, 10)
	binary.BigEndian.PutUint64(b, i)
	binary.BigEndian.PutUint16(b[8:], h)
	return b
}

// RHist is the reference history tree over a digest sequence, with memoised
// frozen nodes (a node is frozen once its whole span is <= the tree version).
type RHist struct {
	d      [][]byte
	frozen map[[2]uint64][]byte
}

func NewRHist() *RHist { return &RHist{frozen: map[[2]uint64][]byte{}} }

func (r *RHist) Append(d []byte) { r.d = append(r.d, append([]byte{}, d...)) }
func (r *RHist) Len() uint64     { return uint64(len(r.d)) }

func (r *RHist) node(i uint64, h uint16, v uint64) []byte {
	full := i+(uint64(1)<<h)-1 <= v
	if full {
		if x, ok := r.frozen[[2]uint64{i, uint64(h)}]; ok {
			return x
		}
	}
	var out []byte
	if h == 0 {
		out = H(r.d[i], hpos(i, 0))
	} else {
		left := r.node(i, h-1, v)
		ri := i + uint64(1)<<(h-1)
		if ri > v {
			out = H(left, hpos(i, h))
		} else {
			out = H(left, r.node(ri, h-1, v), hpos(i, h))
		}
	}
	if full {
		r.frozen[[2]uint64{i, uint64(h)}] = out
	}
	return out
}

// Root is the history digest of version v (needs v < Len()).
func (r *RHist) Root(v uint64) []byte { return r.node(0, uint16(bits.Len64(v)), v) }

// Clone copies the reference (for forks).
func (r *RHist) Clone(upto uint64) *RHist {
	c := NewRHist()
	for i := uint64(0); i < upto && i < uint64(len(r.d)); i++ {
		c.Append(r.d[i])
	}
	return c
}

// ---- R-hyper --------------------------------------------------------------

var hyperDefaults = func() [][]byte {
	d := make([][]byte, 257)
	d[0] = H([]byte{0}, []byte{0})
	for i := 1; i <= 256; i++ {
		d[i] = H(d[i-1], d[i-1])
	}
	return d
}()

type rkv struct{ k, v []byte }

func ypos(index []byte, h uint16) []byte {
	b := make([]byte, 2, 34)
	binary.BigEndian.PutUint16(b, h)
	return append(b, index...)
}

const hyperCacheLimit = 232

func rhyperNode(leaves []rkv, index []byte, h uint16) []byte {
	if len(leaves) == 0 {
		return hyperDefaults[h]
	}
	if h <= hyperCacheLimit && len(leaves) == 1 {
		return H(leaves[0].v, ypos(index, h))
	}
	if h == 0 {
		panic(harnessPanic{"R-hyper: two keys at a leaf"})
	}
	bit := 256 - int(h)
	rindex := append([]byte{}, index...)
	rindex[bit/8] |= 1 << uint(7-bit%8)
	n := sort.Search(len(leaves), func(i int) bool { return bytes.Compare(leaves[i].k, rindex) >= 0 })
	l := rhyperNode(leaves[:n], index, h-1)
	r := rhyperNode(leaves[n:], rindex, h-1)
	return H(r, l, ypos(index, h))
}

// RHyper is the reference sparse tree: digest -> version.
type RHyper struct {
	m      map[string]uint64
	sorted []rkv
	dirty  bool
}

func NewRHyper() *RHyper { return &RHyper{m: map[string]uint64{}} }

func (r *RHyper) Set(k []byte, v uint64) { r.m[string(k)] = v; r.dirty = true }
func (r *RHyper) Get(k []byte) (uint64, bool) {
	v, ok := r.m[string(k)]
	return v, ok
}

func (r *RHyper) Root() []byte {
	if r.dirty || r.sorted == nil {
		r.sorted = r.sorted[:0]
		for k, v := range r.m {
			val := make([]byte, 32)
			binary.BigEndian.PutUint64(val[24:], v)
			r.sorted = append(r.sorted, rkv{[]byte(k), val})
		}
		sort.Slice(r.sorted, func(i, j int) bool { return bytes.Compare(r.sorted[i].k, r.sorted[j].k) < 0 })
		r.dirty = false
	}
	return rhyperNode(r.sorted, make([]byte, 32), 256)
}

// ---- R-log ----------------------------------------------------------------

// RLog is the single-copy log: the sequence of event digests of all committed
// add commands, with the call boundaries (a bulk issues one hyper digest).
type RLog struct {
	Hist     *RHist
	Hyper    *RHyper
	Digests  [][]byte
	CallEnd  []uint64          // for each version, the last version of the call that contained it
	HyperAt  map[uint64][]byte // call-end version -> reference hyper digest
	repeated bool              // a digest was inserted twice: R-hyper no longer consulted
	versions map[string][]uint64
}

func NewRLog() *RLog {
	return &RLog{Hist: NewRHist(), Hyper: NewRHyper(), HyperAt: map[uint64][]byte{}, versions: map[string][]uint64{}}
}

func (l *RLog) Len() uint64 { return uint64(len(l.Digests)) }

// Append applies one committed add command of the given digests and returns
// the first version it was given.
func (l *RLog) Append(ds [][]byte) uint64 {
	base := l.Len()
	end := base + uint64(len(ds)) - 1
	seen := map[string]bool{}
	for i, d := range ds {
		v := base + uint64(i)
		l.Digests = append(l.Digests, append([]byte{}, d...))
		l.Hist.Append(d)
		l.CallEnd = append(l.CallEnd, end)
		if len(l.versions[string(d)]) > 0 || seen[string(d)] {
			l.repeated = true
		}
		seen[string(d)] = true
		l.versions[string(d)] = append(l.versions[string(d)], v)
		l.Hyper.Set(d, v)
	}
	if !l.repeated && len(ds) > 0 {
		l.HyperAt[end] = l.Hyper.Root()
	}
	return base
}

// Repeated reports whether some digest was inserted more than once.
func (l *RLog) Repeated() bool { return l.repeated }

// InsertedAt reports whether digest d was inserted at version v.
func (l *RLog) InsertedAt(d []byte, v uint64) bool {
	for _, x := range l.versions[string(d)] {
		if x == v {
			return true
		}
	}
	return false
}

// Has reports whether digest d was ever inserted.
func (l *RLog) Has(d []byte) bool { return len(l.versions[string(d)]) > 0 }

// FirstVersion of a digest.
func (l *RLog) FirstVersion(d []byte) (uint64, bool) {
	vs := l.versions[string(d)]
	if len(vs) == 0 {
		return 0, false
	}
	return vs[0], true
}

// sha is a convenience for event -> digest.
func sha(b []byte) []byte { s := sha256.Sum256(b); return s[:] }
