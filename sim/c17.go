package qedsim

// C17 — every issued snapshot is emitted once, signed; the signature binds its
// content. World C: the real server.Sender (1..8 batcher goroutines, timers)
// and a real gossip.Agent's outgoing bus run inside a synctest bubble; the
// harness is the only source of stimuli: ONE stimulus, then synctest.Wait().

import (
	"bytes"
	"fmt"
	"sort"
	"sync"
	"testing/synctest"
	"time"

	"github.com/bbva/qed/crypto/sign"
	"github.com/bbva/qed/gossip"
	"github.com/bbva/qed/protocol"
	"github.com/bbva/qed/server"
)

func init() {
	register(&Property{ID: "C17", Gen: genC17, Exec: execC17, Bubble: true, Simplify: func(s Step) []Step {
		if s.Op == "feed" && s.K > 1 {
			c := s
			c.K = 1
			return []Step{c}
		}
		return nil
	}})
}

func genC17(seed uint64, tier string) *Tape {
	rng := NewRng(seed, "C17")
	t := &Tape{Cfg: map[string]int64{}}
	t.Cfg["batch"] = int64(1 + rng.IntN(20))
	if rng.IntN(3) == 0 {
		t.Cfg["batch"] = int64(1 + rng.IntN(3))
	}
	t.Cfg["senders"] = int64(1 + rng.IntN(8))
	t.Cfg["interval_ms"] = int64([]int{10, 100, 100, 250}[rng.IntN(4)])
	t.Cfg["ttl"] = int64(rng.IntN(4))
	// swarm knob: one in `parksign` signing calls is held while the next snapshot
	// arrives, so that two batchers are inside doSign at once (0 = never)
	t.Cfg["parksign"] = int64([]int{0, 0, 2, 3, 6}[rng.IntN(5)])
	n := 20 + rng.IntN(60)
	if tier == "thorough" {
		n = 60 + rng.IntN(300)
	}
	iv := t.Cfg["interval_ms"]
	// swarm: arrival pattern of this run
	pat := rng.IntN(4)
	for i := 0; i < n; i++ {
		x := rng.IntN(100)
		switch {
		case x < 55:
			k := 1 + rng.IntN(5)
			if pat == 1 { // exactly-full batches
				k = int(t.Cfg["batch"])
			}
			if pat == 2 { // bursts
				k = 1 + rng.IntN(40)
			}
			t.Steps = append(t.Steps, Step{Op: "feed", K: k})
		case x < 70:
			// coincide with timer expiry
			t.Steps = append(t.Steps, Step{Op: "sleep", X: iv * int64(1+rng.IntN(3))})
		case x < 80:
			t.Steps = append(t.Steps, Step{Op: "sleep", X: iv - 1 + int64(rng.IntN(3))})
		default:
			ms := int64(rng.IntN(int(iv)*3 + 1))
			if pat == 3 { // trickle slower than the interval
				ms = iv + int64(rng.IntN(int(iv)*2+1))
			}
			t.Steps = append(t.Steps, Step{Op: "sleep", X: ms})
		}
	}
	return t
}

type batchSeen struct {
	at       time.Duration
	ttl      int
	versions []uint64
	line     string
}

type c17Collector struct {
	mu      sync.Mutex
	start   time.Time
	batches []batchSeen
	bad     []string
	signer  sign.Signer
}

func (c *c17Collector) Subscribe(id int, ch <-chan *gossip.Message) {
	go func() {
		for m := range ch {
			b := new(protocol.BatchSnapshots)
			c.mu.Lock()
			if err := b.Decode(m.Payload); err != nil {
				c.bad = append(c.bad, fmt.Sprintf("batch does not decode: %v", err))
				c.mu.Unlock()
				continue
			}
			bs := batchSeen{at: time.Since(c.start), ttl: m.TTL}
			for _, ss := range b.Snapshots {
				if ss == nil || ss.Snapshot == nil {
					c.bad = append(c.bad, "batch carries a nil signed snapshot")
					continue
				}
				bs.versions = append(bs.versions, ss.Snapshot.Version)
				ok, err := c.signer.Verify([]byte(fmt.Sprintf("%v", ss.Snapshot)), ss.Signature)
				if err != nil || !ok {
					c.bad = append(c.bad, fmt.Sprintf("signature of snapshot %d does not verify under the server's key", ss.Snapshot.Version))
				}
				want := mkSnapshot(ss.Snapshot.Version)
				if !bytes.Equal(want.EventDigest, ss.Snapshot.EventDigest) || !bytes.Equal(want.HistoryDigest, ss.Snapshot.HistoryDigest) || !bytes.Equal(want.HyperDigest, ss.Snapshot.HyperDigest) {
					c.bad = append(c.bad, fmt.Sprintf("snapshot %d left the sender with altered content", ss.Snapshot.Version))
				}
			}
			bs.line = fmt.Sprintf("t=%012d n=%d ttl=%d %v", int64(bs.at), len(bs.versions), bs.ttl, bs.versions)
			c.batches = append(c.batches, bs)
			c.mu.Unlock()
		}
	}()
}

// parkSigner is a sign.Signer that can hold one Sign call while the next
// stimulus is delivered, which is how two batchers are brought inside doSign at
// the same time deterministically: a seeded subset of calls parks on entry; the
// driver releases the parked call after the following stimulus has been fully
// processed (so at most one call is parked, no simulated time passes while it
// is, and every step still has a single runnable chain). A signing input that
// changes while its call is parked is reported; the signature that results is
// checked by the collector like any other.
type parkSigner struct {
	inner  sign.Signer
	seed   uint64
	rate   int64
	mu     sync.Mutex
	n      uint64
	parked chan struct{}
	col    *c17Collector
	r      *Run
}

func (s *parkSigner) Sign(msg []byte) ([]byte, error) {
	s.mu.Lock()
	s.n++
	k := s.n
	var ch chan struct{}
	if s.parked == nil && subRng(s.seed, k, "parksign").Int64N(s.rate) == 0 {
		ch = make(chan struct{})
		s.parked = ch
	}
	s.mu.Unlock()
	if ch != nil {
		before := append([]byte{}, msg...)
		<-ch
		s.r.Count("fault.sign_call_overlapped")
		if !bytes.Equal(before, msg) {
			s.col.mu.Lock()
			s.col.bad = append(s.col.bad, fmt.Sprintf("the bytes handed to the signer were overwritten by a concurrent batcher while they were being signed (signing call #%d)", k))
			s.col.mu.Unlock()
		}
	}
	return s.inner.Sign(msg)
}

func (s *parkSigner) Verify(msg, sig []byte) (bool, error) { return s.inner.Verify(msg, sig) }

func (s *parkSigner) isParked() bool {
	s.mu.Lock()
	defer s.mu.Unlock()
	return s.parked != nil
}

func (s *parkSigner) release() {
	s.mu.Lock()
	ch := s.parked
	s.parked = nil
	s.mu.Unlock()
	if ch != nil {
		close(ch)
		synctest.Wait()
	}
}

func mkSnapshot(v uint64) *protocol.Snapshot {
	return &protocol.Snapshot{Version: v, EventDigest: sha([]byte(fmt.Sprintf("e%d", v))),
		HistoryDigest: sha([]byte(fmt.Sprintf("h%d", v))), HyperDigest: sha([]byte(fmt.Sprintf("y%d", v)))}
}

func execC17(r *Run) {
	start := time.Now()
	lg := newSimLogger()
	agent, err := gossip.NewAgent(gossip.SetNodeName("s0"), gossip.SetRole("server"), gossip.SetBindAddr("127.0.0.1:7946"), gossip.SetLogger(lg))
	if err != nil {
		r.Bug("agent: %v", err)
	}
	sg := sign.NewEd25519Signer()
	col := &c17Collector{signer: sg, start: start}
	agent.Out.Subscribe(gossip.BatchMessageType, col, 255)
	bsz := int(r.Cfg("batch"))
	if bsz < 1 {
		bsz = 1
	}
	ns := int(r.Cfg("senders"))
	if ns < 1 {
		ns = 1
	}
	iv := time.Duration(r.Cfg("interval_ms")) * time.Millisecond
	if iv <= 0 {
		iv = 100 * time.Millisecond
	}
	var sndSigner sign.Signer = sg
	var ps *parkSigner
	if rate := r.Cfg("parksign"); rate > 0 {
		ps = &parkSigner{inner: sg, seed: r.Tape.Seed, rate: rate, col: col, r: r}
		sndSigner = ps
	}
	release := func() {
		if ps != nil {
			ps.release()
		}
	}
	snd := server.NewSenderWithLogger(agent, sndSigner, bsz, int(r.Cfg("ttl")), ns, lg)
	snd.Interval = iv
	ch := make(chan *protocol.Snapshot, 1<<12)
	snd.Start(ch)
	synctest.Wait()
	fed := uint64(0)
	for i, s := range r.Tape.Steps {
		r.cur = i
		switch s.Op {
		case "feed":
			for j := 0; j < s.K; j++ {
				held := ps != nil && ps.isParked()
				ch <- mkSnapshot(fed)
				fed++
				synctest.Wait() // one stimulus, then quiescence
				if held {
					release() // the call parked before this stimulus has now overlapped it
				}
				r.Tick(1, 0)
			}
			r.Count("stimulus.feed")
		case "sleep":
			release() // no simulated time passes while a signing call is held
			time.Sleep(time.Duration(s.X) * time.Millisecond)
			synctest.Wait()
			r.Tick(1, s.X)
			r.Count("stimulus.sleep")
		}
	}
	r.cur = len(r.Tape.Steps)
	// arrivals stop; the sender keeps running: everything must be out within two intervals
	release()
	time.Sleep(2 * iv)
	synctest.Wait()
	r.Tick(1, int64(2*iv/time.Millisecond))
	col.mu.Lock()
	defer col.mu.Unlock()
	// canonical order for observations with equal stamps
	sort.Slice(col.batches, func(i, j int) bool { return col.batches[i].line < col.batches[j].line })
	seen := map[uint64]int{}
	timerFlush, fullFlush := 0, 0
	for _, b := range col.batches {
		r.Logf("batch %s", b.line)
		if len(b.versions) < 1 || len(b.versions) > bsz {
			r.Fail("batch-size", "a batch of %d snapshots left the sender (configured size %d)", len(b.versions), bsz)
		}
		if b.ttl != int(r.Cfg("ttl")) {
			r.Fail("batch-ttl", "a batch left the sender with TTL %d, configured %d", b.ttl, r.Cfg("ttl"))
		}
		if len(b.versions) == bsz {
			fullFlush++
		} else {
			timerFlush++
		}
		for _, v := range b.versions {
			seen[v]++
		}
	}
	for _, m := range col.bad {
		r.Fail("signed", "%s", m)
	}
	for v := uint64(0); v < fed; v++ {
		if seen[v] == 0 {
			r.Fail("conservation", "snapshot %d was handed to the sender but had not left it %v after arrivals stopped (%d fed, %d batches)", v, 2*iv, fed, len(col.batches))
		}
		if seen[v] > 1 {
			r.Fail("conservation", "snapshot %d left the sender %d times", v, seen[v])
		}
	}
	for v := range seen {
		if v >= fed {
			r.Fail("conservation", "snapshot %d left the sender but was never handed to it", v)
		}
	}
	r.CountN("probe.batch_flushed_by_timer", int64(timerFlush))
	r.CountN("probe.batch_flushed_full", int64(fullFlush))
	r.CountN("oracle.snapshots_accounted", int64(fed))
	// signature binding
	rng := r.NamedRng("binding")
	for t := 0; t < 6 && fed > 0; t++ {
		checkSignatureBinding(r, sg, mkSnapshot(uint64(rng.IntN(int(fed)))), rng)
	}
	snd.Stop()
	synctest.Wait()
	if fed >= 3 {
		r.Distinct("c17:" + r.Tape.stepsKey() + fmt.Sprint(bsz, ns, iv))
	}
	r.Sample(map[string]interface{}{"seed": r.Tape.Seed, "batch_size": bsz, "batchers": ns, "interval": iv.String(), "fed": fed,
		"batches": len(col.batches), "first_steps": firstSteps(r.Tape, 6)})
}

type intner interface{ IntN(int) int }

func checkSignatureBinding(r *Run, sg sign.Signer, s *protocol.Snapshot, rng intner) {
	msg := func(x *protocol.Snapshot) []byte { return []byte(fmt.Sprintf("%v", x)) }
	sig, err := sg.Sign(msg(s))
	if err != nil {
		r.Fail("signed", "signing failed: %v", err)
	}
	if ok, _ := sg.Verify(msg(s), sig); !ok {
		r.Fail("signed", "a fresh signature does not verify")
	}
	clone := func() *protocol.Snapshot {
		return &protocol.Snapshot{Version: s.Version, EventDigest: append([]byte{}, s.EventDigest...),
			HistoryDigest: append([]byte{}, s.HistoryDigest...), HyperDigest: append([]byte{}, s.HyperDigest...)}
	}
	try := func(what string, x *protocol.Snapshot, sg2 []byte) {
		ok, _ := sg.Verify(msg(x), sg2)
		if ok {
			r.Fail("signature-binds", "signature still verifies after %s", what)
		}
		r.Count("oracle.binding_mutation_rejected")
	}
	x := clone()
	x.Version++
	try("version+1", x, sig)
	if s.Version > 0 {
		x = clone()
		x.Version--
		try("version-1", x, sig)
	}
	for _, f := range []string{"event", "history", "hyper"} {
		x = clone()
		var d *[]byte
		switch f {
		case "event":
			d = (*[]byte)(&x.EventDigest)
		case "history":
			d = (*[]byte)(&x.HistoryDigest)
		default:
			d = (*[]byte)(&x.HyperDigest)
		}
		for _, pos := range []int{0, len(*d) / 2, len(*d) - 1, rng.IntN(len(*d))} {
			y := clone()
			var e *[]byte
			switch f {
			case "event":
				e = (*[]byte)(&y.EventDigest)
			case "history":
				e = (*[]byte)(&y.HistoryDigest)
			default:
				e = (*[]byte)(&y.HyperDigest)
			}
			(*e)[pos] ^= 1 << uint(rng.IntN(8))
			try(fmt.Sprintf("a bit flip in the %s digest at byte %d", f, pos), y, sig)
		}
		_ = d
	}
	x = clone()
	x.EventDigest, x.HistoryDigest = x.HistoryDigest, x.EventDigest
	try("swapping event and history digests", x, sig)
	x = clone()
	x.HistoryDigest, x.HyperDigest = x.HyperDigest, x.HistoryDigest
	try("swapping history and hyper digests", x, sig)
	x = clone()
	n := len(x.EventDigest)
	x.HistoryDigest = append([]byte{x.EventDigest[n-1]}, x.HistoryDigest...)
	x.EventDigest = x.EventDigest[:n-1]
	try("moving a byte from the event digest to the history digest", x, sig)
	x = clone()
	x.HyperDigest = append(x.HyperDigest, 0)
	try("appending a zero byte to the hyper digest", x, sig)
	for _, pos := range []int{0, len(sig) / 2, len(sig) - 1, rng.IntN(len(sig))} {
		s2 := append([]byte{}, sig...)
		s2[pos] ^= 1 << uint(rng.IntN(8))
		try(fmt.Sprintf("a bit flip in the signature at byte %d", pos), s, s2)
	}
}
