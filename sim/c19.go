package qedsim

// C19 — agents alert exactly when verification fails and publish each snapshot
// once. World C+D: real gossip agents (hook H3) with the real auditor, monitor
// and publisher task factories (hook H4), a real client.HTTPClient per agent
// over the simulated HTTP network to a real QED log (balloon) behind the real
// apihttp handlers, a simulated snapshot store and notifier; synctest bubble.

import (
	"crypto/sha256"
	"encoding/hex"
	"encoding/json"
	"fmt"
	"net/http"
	"sort"
	"testing/synctest"
	"time"

	"github.com/bbva/qed/api/apihttp"
	"github.com/bbva/qed/client"
	"github.com/bbva/qed/cmd"
	"github.com/bbva/qed/crypto/hashing"
	"github.com/bbva/qed/gossip"
	"github.com/bbva/qed/protocol"
)

func init() {
	register(&Property{ID: "C19", Gen: genC19, Exec: execC19, Bubble: true})
}

// alterations of the alert half; 0 = honest run
var c19Alterations = []string{"none", "gossip-event", "gossip-history", "gossip-version", "store-hyper", "log-answer", "fork", "gossip-last-history", "gossip-first-version"}

func genC19(seed uint64, tier string) *Tape {
	rng := NewRng(seed, "C19")
	t := &Tape{Cfg: map[string]int64{}}
	alt := 0
	if rng.IntN(2) == 0 {
		alt = 1 + rng.IntN(len(c19Alterations)-1)
	}
	t.Cfg["fix_alter"] = int64(alt)
	t.Cfg["fix_agents"] = 6
	n := 6 + rng.IntN(14)
	if tier == "thorough" {
		n = 15 + rng.IntN(50)
	}
	if alt == 0 {
		// honest half: any batching, any delivery pattern, store outages
		for i := 0; i < n; i++ {
			x := rng.IntN(100)
			switch {
			case x < 25:
				k := 1 + rng.IntN(5)
				if rng.IntN(5) == 0 {
					k = 8 + rng.IntN(24) // a burst: the batch that carries it is kilobytes on the wire
				}
				t.Steps = append(t.Steps, Step{Op: "add", K: k})
			case x < 45:
				k := 1 + rng.IntN(6)
				if rng.IntN(4) == 0 {
					k = 50
				}
				t.Steps = append(t.Steps, Step{Op: "batch", K: k, X: int64(rng.IntN(3))})
			case x < 75:
				t.Steps = append(t.Steps, Step{Op: "deliver", Node: rng.IntN(6), X: int64(rng.IntN(1 << 16))})
			case x < 88:
				t.Steps = append(t.Steps, Step{Op: "sleep", X: int64(50 + rng.IntN(600))})
			case x < 94:
				t.Steps = append(t.Steps, Step{Op: "outage", K: rng.IntN(2)})
			default:
				t.Steps = append(t.Steps, Step{Op: "deliverall", X: int64(rng.IntN(1 << 16))})
			}
		}
		t.Steps = append(t.Steps, Step{Op: "outage", K: 0}, Step{Op: "batch", K: 50}, Step{Op: "publish"}, Step{Op: "sleep", X: 1500}, Step{Op: "audit"}, Step{Op: "sleep", X: 1500})
	} else {
		// alert half: a clean prefix, then one altered batch is audited
		for i := 0; i < 2+rng.IntN(4); i++ {
			t.Steps = append(t.Steps, Step{Op: "add", K: 1 + rng.IntN(5)})
		}
		t.Steps = append(t.Steps, Step{Op: "batch", K: 50}, Step{Op: "publish"}, Step{Op: "sleep", X: 1500},
			Step{Op: "add", K: 2 + rng.IntN(4)}, Step{Op: "batch", K: 50, Kind: "altered"}, Step{Op: "publish"}, Step{Op: "sleep", X: 1500},
			Step{Op: "audit"}, Step{Op: "sleep", X: 1500})
	}
	return t
}

type c19Batch struct {
	b       *protocol.BatchSnapshots // what the sender signed (authentic)
	altered bool
}

func execC19(r *Run) {
	lg := newSimLogger()
	if r.Verbose {
		lg.sink = func(level, msg string) { fmt.Printf("    qed[%s] %s\n", level, trunc(msg, 300)) }
	}
	net := newSimHTTP()
	log := newSimLog()
	fork := newSimLog() // a log that diverged from the honest one
	view := &clusterView{up: map[string]bool{"q0": true}, nodes: []string{"q0"}, leader: "q0"}
	alter := c19Alterations[int(r.Cfg("fix_alter"))%len(c19Alterations)]
	served := log
	api := &simNodeAPI{name: "q0", log: log, view: view}
	forkAPI := &simNodeAPI{name: "q0", log: fork, view: view}
	mux, forkMux := apihttp.NewApiHttp(api), apihttp.NewApiHttp(forkAPI)
	serveFork := false
	net.addHost("q0:8800", http.HandlerFunc(func(w http.ResponseWriter, q *http.Request) {
		if serveFork {
			forkMux.ServeHTTP(w, q)
			return
		}
		mux.ServeHTTP(w, q)
	}))
	_ = served
	tamperAnswers := false
	net.tamper = func(host, path string, status int, body []byte) (int, []byte) {
		if !tamperAnswers || status != 200 {
			return status, body
		}
		// Byzantine wire: flip one bit of one audit-path digest of a genuine answer
		var m map[string]interface{}
		if json.Unmarshal(body, &m) != nil {
			return status, body
		}
		for _, field := range []string{"History", "AuditPath", "Hyper"} {
			if ap, ok := m[field].(map[string]interface{}); ok && len(ap) > 0 {
				keys := make([]string, 0, len(ap))
				for k := range ap {
					keys = append(keys, k)
				}
				sort.Strings(keys)
				k := keys[len(keys)/2]
				if s, ok := ap[k].(string); ok && len(s) > 2 {
					c := byte('A')
					if s[1] == 'A' {
						c = 'B'
					}
					ap[k] = s[:1] + string(c) + s[2:]
					out, _ := json.Marshal(m)
					return status, out
				}
			}
		}
		return status, body
	}
	store := newSimSnapshotStore()
	notif := map[string]*simNotifier{}
	putAttempts := map[string]int{}
	realPut := store.PutBatch
	_ = realPut
	var names []string
	g := newGossipWorld(r, int(r.Cfg("fix_agents")), func(name, role string, i int) *gossip.Agent {
		// roles cycle server, auditor, monitor, publisher: replace servers by a second publisher/auditor
		nt := &simNotifier{}
		notif[name] = nt
		cl, err := client.NewHTTPClient(client.SetHttpClient(&http.Client{Transport: net}), client.SetURLs("http://q0:8800"),
			client.SetReadPreference(client.Any), client.SetMaxRetries(0), client.SetTopologyDiscovery(false), client.SetHealthChecks(false),
			client.SetAttemptToReviveEndpoints(true), client.SetHasherFunction(hashing.NewSha256Hasher), client.SetLogger(lg), client.SetAPIKey(name))
		if err != nil {
			r.Bug("client: %v", err)
		}
		opts := []gossip.AgentOptionF{gossip.SetNodeName(name), gossip.SetRole(role), gossip.SetBindAddr(fmt.Sprintf("127.0.0.1:%d", 7100+i)),
			gossip.SetAdvertiseAddr(fmt.Sprintf("127.0.0.1:%d", 7100+i)), gossip.SetLogger(lg), gossip.SetCache(1 << 20),
			gossip.SetTasksManager(gossip.NewSimpleTasksManagerWithLogger(200*time.Millisecond, 10, lg)),
			gossip.SetQEDClient(cl), gossip.SetSnapshotStore(&countingStore{store, putAttempts}), gossip.SetNotifier(nt)}
		a, err := gossip.NewAgent(opts...)
		if err != nil {
			r.Bug("agent: %v", err)
		}
		var tf []gossip.TaskFactory
		switch role {
		case "auditor":
			tf = []gossip.TaskFactory{cmd.SimAuditorFactory(lg)}
		case "monitor":
			tf = []gossip.TaskFactory{cmd.SimMonitorFactory(lg)}
		case "publisher":
			tf = []gossip.TaskFactory{cmd.SimPublisherFactory(lg)}
		}
		if tf != nil {
			bp := gossip.NewBatchProcessor(a, tf, lg)
			a.In.Subscribe(gossip.BatchMessageType, bp, 255)
		}
		a.SimStart()
		names = append(names, name)
		return a
	})
	var issued []*protocol.Snapshot // every snapshot the log issued, by version
	unsent := 0
	var batches []c19Batch
	evc := 0
	mkWire := func(b *protocol.BatchSnapshots) []byte {
		payload, _ := b.Encode()
		m := &gossip.Message{Kind: gossip.BatchMessageType, TTL: 0, Payload: payload}
		w, _ := m.Encode()
		return w
	}
	signed := func(s *protocol.Snapshot) *protocol.SignedSnapshot {
		h := sha256.Sum256([]byte(fmt.Sprintf("%v", s)))
		return &protocol.SignedSnapshot{Snapshot: s, Signature: []byte("sig-" + hex.EncodeToString(h[:8]))}
	}
	// alteration of the batch that is gossiped to auditors and monitors
	alterBatch := func(b *protocol.BatchSnapshots) *protocol.BatchSnapshots {
		out := &protocol.BatchSnapshots{}
		for _, ss := range b.Snapshots {
			c := *ss.Snapshot
			out.Snapshots = append(out.Snapshots, &protocol.SignedSnapshot{Snapshot: &c, Signature: ss.Signature})
		}
		first, last := out.Snapshots[0].Snapshot, out.Snapshots[len(out.Snapshots)-1].Snapshot
		flip := func(d []byte) []byte { x := append([]byte{}, d...); x[3] ^= 0x10; return x }
		switch alter {
		case "gossip-event":
			first.EventDigest = flip(first.EventDigest)
		case "gossip-history":
			first.HistoryDigest = flip(first.HistoryDigest)
		case "gossip-last-history":
			last.HistoryDigest = flip(last.HistoryDigest)
		case "gossip-version":
			last.Version++
		case "gossip-first-version":
			first.Version++
		}
		return out
	}
	reached := map[string]map[string]bool{} // publisher -> signatures delivered to it
	deliverTo := func(name string, b *protocol.BatchSnapshots) {
		if g.roles[name] == "publisher" {
			if reached[name] == nil {
				reached[name] = map[string]bool{}
			}
			for _, ss := range b.Snapshots {
				reached[name][string(ss.Signature)] = true
			}
		}
		g.agents[name].SimDeliver(mkWire(b))
		synctest.Wait()
		g.mu.Lock()
		g.emitted = nil // forwarding is C18's business
		g.mu.Unlock()
		r.Count("net.batches_delivered")
	}
	alertsOf := func(role string) int {
		n := 0
		for _, nm := range names {
			if g.roles[nm] == role {
				n += notif[nm].count()
			}
		}
		return n
	}
	expectAuditorAlert, expectMonitorAlert := false, false
	for i, s := range r.Tape.Steps {
		r.cur = i
		r.Tick(1, 0)
		switch s.Op {
		case "add":
			var evs [][]byte
			for j := 0; j < s.K; j++ {
				evc++
				evs = append(evs, []byte(fmt.Sprintf("c19-%d-%d", r.Tape.Seed, evc)))
			}
			snaps, err := log.add("q0", evs)
			if err != nil {
				r.Bug("log add: %v", err)
			}
			// the forked log shares the first insertion, then diverges
			fevs := evs
			if len(issued) > 0 {
				fevs = nil
				for _, e := range evs {
					fevs = append(fevs, append([]byte("fork-"), e...))
				}
			}
			fork.add("q0", fevs)
			for _, sn := range snaps {
				ps := protocol.Snapshot(*sn)
				issued = append(issued, &ps)
			}
			r.Logf("ADD %d -> version %d", s.K, len(issued)-1)
		case "batch":
			if unsent >= len(issued) {
				continue
			}
			k := s.K
			start := unsent
			if s.X > 0 && start > 0 { // overlap with the previous batch
				start--
			}
			end := unsent + k
			if end > len(issued) {
				end = len(issued)
			}
			b := &protocol.BatchSnapshots{}
			for v := start; v < end; v++ {
				b.Snapshots = append(b.Snapshots, signed(issued[v]))
			}
			unsent = end
			batches = append(batches, c19Batch{b: b, altered: s.Kind == "altered"})
			r.Logf("BATCH #%d versions %d..%d altered=%v", len(batches)-1, start, end-1, s.Kind == "altered")
		case "deliver":
			if len(batches) == 0 {
				continue
			}
			b := batches[int(s.X)%len(batches)]
			name := names[s.Node%len(names)]
			r.Logf("DELIVER #%d to %s", int(s.X)%len(batches), name)
			deliverTo(name, b.b)
		case "deliverall":
			if len(batches) == 0 {
				continue
			}
			b := batches[int(s.X)%len(batches)]
			for _, nm := range names {
				deliverTo(nm, b.b)
			}
		case "publish": // every batch reaches every publisher (authentic content)
			for bi, b := range batches {
				for _, nm := range names {
					if g.roles[nm] == "publisher" {
						deliverTo(nm, b.b)
						_ = bi
					}
				}
			}
		case "audit": // the last batch reaches auditors and monitors, possibly altered
			if len(batches) == 0 {
				continue
			}
			b := batches[len(batches)-1]
			gb := b.b
			if b.altered {
				switch alter {
				case "store-hyper":
					cur := uint64(len(issued) - 1)
					store.alter = func(v uint64, ss *protocol.SignedSnapshot) *protocol.SignedSnapshot {
						if v != cur {
							return ss
						}
						c := *ss.Snapshot
						c.HyperDigest = append([]byte{}, c.HyperDigest...)
						c.HyperDigest[5] ^= 1
						return &protocol.SignedSnapshot{Snapshot: &c, Signature: ss.Signature}
					}
					expectAuditorAlert = true
				case "log-answer":
					tamperAnswers = true
					expectAuditorAlert, expectMonitorAlert = true, len(gb.Snapshots) > 1
				case "fork":
					serveFork = true
					expectAuditorAlert = true
					expectMonitorAlert = len(gb.Snapshots) > 1
				default:
					gb = alterBatch(b.b)
					switch alter {
					case "gossip-event", "gossip-history":
						expectAuditorAlert = true
						expectMonitorAlert = alter == "gossip-history" && len(gb.Snapshots) > 1
					case "gossip-last-history":
						expectMonitorAlert = len(gb.Snapshots) > 1
						expectAuditorAlert = len(gb.Snapshots) == 1
					case "gossip-version":
						expectMonitorAlert = true
						expectAuditorAlert = len(gb.Snapshots) == 1
					case "gossip-first-version":
						expectAuditorAlert = true
						expectMonitorAlert = true
					}
				}
				r.Count("fault.alteration_" + alter)
				// the auditor can only get as far as verifying if the store already
				// holds the snapshot of the log's current version; otherwise its
				// task legitimately fails without an alert
				store.mu.Lock()
				_, have := store.snaps[uint64(len(issued)-1)]
				store.mu.Unlock()
				if !have || store.down {
					expectAuditorAlert = false
				}
			}
			for _, nm := range names {
				if g.roles[nm] == "auditor" || g.roles[nm] == "monitor" {
					deliverTo(nm, gb)
				}
			}
		case "sleep":
			time.Sleep(time.Duration(s.X) * time.Millisecond)
			synctest.Wait()
			r.Tick(0, s.X)
		case "outage":
			store.mu.Lock()
			store.down = s.K == 1
			store.mu.Unlock()
			if s.K == 1 {
				r.Count("fault.store_outage")
			}
		}
	}
	r.cur = len(r.Tape.Steps)
	time.Sleep(time.Second)
	synctest.Wait()
	aud, mon := alertsOf("auditor"), alertsOf("monitor")
	r.Logf("ALERTS auditor=%d monitor=%d publisher=%d (alteration %s)", aud, mon, alertsOf("publisher"), alter)
	if alter == "none" {
		if aud+mon+alertsOf("publisher") != 0 {
			msg := ""
			for _, nm := range names {
				notif[nm].mu.Lock()
				if len(notif[nm].alerts) > 0 {
					msg = nm + ": " + notif[nm].alerts[0]
				}
				notif[nm].mu.Unlock()
			}
			r.Fail("no-false-alert", "honest log of distinct events, honest store: %d alerts were raised, e.g. %s", aud+mon, trunc(msg, 200))
		}
	} else {
		if expectAuditorAlert && aud == 0 {
			r.Fail("alert-raised", "alteration %q makes the membership proof of the gossiped snapshot fail, but no auditor raised an alert", alter)
		}
		if expectMonitorAlert && mon == 0 {
			r.Fail("alert-raised", "alteration %q makes the consistency proof between the first and last snapshot of the batch fail, but no monitor raised an alert", alter)
		}
		r.Count("oracle.alert_checked")
	}
	// publisher: every distinct signed snapshot that reached a publisher was
	// forwarded (PutBatch) exactly once by that publisher
	want := map[string]int{}
	for _, per := range reached {
		for sig := range per {
			want[sig]++
		}
	}
	sigs := make([]string, 0, len(want))
	for k := range want {
		sigs = append(sigs, k)
	}
	for k := range putAttempts {
		if _, ok := want[k]; !ok {
			sigs = append(sigs, k)
		}
	}
	sort.Strings(sigs)
	for _, k := range sigs {
		if putAttempts[k] > want[k] {
			r.Fail("publish-once", "signed snapshot %s reached %d publisher(s) but was forwarded to the snapshot store %d times", k, want[k], putAttempts[k])
		}
		if putAttempts[k] < want[k] {
			r.Fail("publish-once", "signed snapshot %s reached %d publisher(s) but was forwarded to the snapshot store only %d times", k, want[k], putAttempts[k])
		}
	}
	r.CountN("oracle.published_snapshots_checked", int64(len(want)))
	for _, nm := range names {
		g.agents[nm].SimStop()
	}
	synctest.Wait()
	if len(issued) >= 2 {
		r.Distinct("c19:" + alter + r.Tape.stepsKey())
	}
	r.Sample(map[string]interface{}{"seed": r.Tape.Seed, "alteration": alter, "events": len(issued), "batches": len(batches), "alerts": aud + mon, "first_steps": firstSteps(r.Tape, 6)})
}

// countingStore counts every forward (PutBatch call) per signature, including
// the ones that fail during an outage.
type countingStore struct {
	*simSnapshotStore
	attempts map[string]int
}

func (c *countingStore) PutBatch(b *protocol.BatchSnapshots) error {
	c.simSnapshotStore.mu.Lock()
	for _, ss := range b.Snapshots {
		if ss != nil {
			c.attempts[string(ss.Signature)]++
		}
	}
	c.simSnapshotStore.mu.Unlock()
	return c.simSnapshotStore.PutBatch(b)
}
