package qedsim

// C15 — the replicated-log store returns exactly what consensus stored.
// World B on the real consensus.raftLog (hook H2 NewSimRaftLog): generated
// sequences of StoreLog/StoreLogs/GetLog/DeleteRange/First/LastIndex/Set/Get/
// SetUint64/GetUint64 and close+reopen vs. a map model.

import (
	"bytes"
	"encoding/hex"
	"fmt"
	"math/rand/v2"
	"os"
	"sort"

	"github.com/bbva/qed/consensus"
	"github.com/hashicorp/raft"
)

func init() {
	register(&Property{ID: "C15", Gen: genC15, Exec: execC15, Simplify: simplifyC15})
}

var c15Bases = []uint64{1, 1, 1, 1 << 32, 1 << 63, ^uint64(0) - 23}

func genC15(seed uint64, tier string) *Tape {
	rng := NewRng(seed, "C15")
	n := 12 + rng.IntN(50)
	if tier == "thorough" {
		n = 40 + rng.IntN(360)
	}
	t := &Tape{Cfg: map[string]int64{}}
	// swarm: most runs stay in one index neighbourhood (dense interaction)
	nb := 1
	if rng.IntN(3) == 0 {
		nb = 1 + rng.IntN(3)
	}
	bases := make([]uint64, nb)
	for i := range bases {
		bases[i] = c15Bases[rng.IntN(len(c15Bases))]
	}
	idx := func() uint64 {
		b := bases[rng.IntN(len(bases))]
		off := uint64(rng.IntN(24))
		if rng.IntN(12) == 0 {
			off = uint64(rng.IntN(39))
		}
		if b == 1 && rng.IntN(20) == 0 {
			return 0
		}
		return b + off
	}
	raftLike := rng.IntN(3) == 0 // dense appends + prefix/suffix truncations as raft issues them
	next := bases[0]
	wReopen := []int{0, 4, 10}[rng.IntN(3)]
	keys := []string{"CurrentTerm", "LastVoteTerm", "LastVoteCand", "k", ""}
	for i := 0; i < n; i++ {
		x := rng.IntN(100)
		switch {
		case x < 18:
			ix := idx()
			if raftLike {
				ix = next
				next++
			}
			t.Steps = append(t.Steps, Step{Op: "store", X: int64(ix), Y: int64(rng.Uint64N(5)), K: rng.IntN(6), Kind: payloadKind(rng)})
		case x < 34:
			ix := idx()
			k := 1 + rng.IntN(8)
			kind := "contig"
			if !raftLike && rng.IntN(3) == 0 {
				kind = "gaps"
			}
			if raftLike {
				ix = next
				next += uint64(k)
			}
			t.Steps = append(t.Steps, Step{Op: "storemany", X: int64(ix), K: k, Kind: kind, Y: int64(rng.Uint64N(1 << 20))})
		case x < 50:
			t.Steps = append(t.Steps, Step{Op: "get", X: int64(idx())})
		case x < 64:
			a, b := idx(), idx()
			if rng.IntN(5) != 0 && a > b {
				a, b = b, a
			}
			t.Steps = append(t.Steps, Step{Op: "delrange", X: int64(a), Y: int64(b)})
		case x < 76:
			t.Steps = append(t.Steps, Step{Op: "bounds"})
		case x < 84:
			k := keys[rng.IntN(len(keys))]
			v := fmt.Sprintf("val%d", i)
			if rng.IntN(12) == 0 {
				v = ""
			}
			t.Steps = append(t.Steps, Step{Op: "set", Data: k, Kind: v})
		case x < 88:
			t.Steps = append(t.Steps, Step{Op: "setu", Data: "u" + keys[rng.IntN(len(keys))], X: int64(rng.Uint64())})
		case x < 100-wReopen:
			if rng.IntN(2) == 0 {
				t.Steps = append(t.Steps, Step{Op: "sget", Data: keys[rng.IntN(len(keys))]})
			} else {
				t.Steps = append(t.Steps, Step{Op: "getu", Data: "u" + keys[rng.IntN(len(keys))]})
			}
		default:
			t.Steps = append(t.Steps, Step{Op: "reopen"})
		}
	}
	t.Steps = append(t.Steps, Step{Op: "reopen"}, Step{Op: "audit"})
	return t
}

func payloadKind(rng *rand.Rand) string {
	return []string{"empty", "small", "small", "ext", "big"}[rng.IntN(5)]
}

func simplifyC15(s Step) []Step {
	var out []Step
	if s.Op == "storemany" && s.K > 1 {
		c := s
		c.K = 1
		out = append(out, c)
	}
	if s.Op == "store" && s.Kind != "empty" {
		c := s
		c.Kind = "empty"
		out = append(out, c)
	}
	return out
}

func mkLog(index, term uint64, typ int, kind string, salt uint64) *raft.Log {
	l := &raft.Log{Index: index, Term: term, Type: raft.LogType(typ)}
	rng := rand.New(rand.NewPCG(index, salt+uint64(typ)))
	switch kind {
	case "empty":
	case "small":
		l.Data = randBytes(rng, 1+rng.IntN(40))
	case "ext":
		l.Data = randBytes(rng, 1+rng.IntN(40))
		l.Extensions = randBytes(rng, 1+rng.IntN(20))
	case "big":
		l.Data = randBytes(rng, 1000+rng.IntN(64000))
	}
	return l
}

func randBytes(rng *rand.Rand, n int) []byte {
	b := make([]byte, n)
	for i := range b {
		b[i] = byte(rng.IntN(256))
	}
	return b
}

func sameLog(a, b *raft.Log) bool {
	return a.Index == b.Index && a.Term == b.Term && a.Type == b.Type &&
		bytes.Equal(a.Data, b.Data) && bytes.Equal(a.Extensions, b.Extensions)
}

func logStr(l *raft.Log) string {
	return fmt.Sprintf("{idx=%d term=%d type=%d data=%dB ext=%dB}", l.Index, l.Term, l.Type, len(l.Data), len(l.Extensions))
}

func execC15(r *Run) {
	dir, err := os.MkdirTemp(scratchBase(), "qedsim-c15-")
	if err != nil {
		r.Bug("mkdtemp: %v", err)
	}
	r.OnCleanup(func() { os.RemoveAll(dir) })
	sync := r.Tape.Seed%2 == 0
	st, err := consensus.NewSimRaftLog(dir, sync)
	if err != nil {
		r.Bug("open raft log: %v", err)
	}
	r.OnCleanup(func() {
		if st != nil {
			st.Close()
		}
	})
	logs := map[uint64]*raft.Log{}
	kv := map[string][]byte{}
	nonTrivial := 0
	bounds := func() (uint64, uint64) {
		if len(logs) == 0 {
			return 0, 0
		}
		var ks []uint64
		for k := range logs {
			ks = append(ks, k)
		}
		sort.Slice(ks, func(i, j int) bool { return ks[i] < ks[j] })
		return ks[0], ks[len(ks)-1]
	}
	checkGet := func(ix uint64) {
		var got raft.Log
		err := st.GetLog(ix, &got)
		want, ok := logs[ix]
		switch {
		case ok && err != nil:
			r.Fail("get-log", "GetLog(%d) = error %v, model has %s", ix, err, logStr(want))
		case ok && !sameLog(&got, want):
			r.Fail("get-log", "GetLog(%d) = %s, model has %s", ix, logStr(&got), logStr(want))
		case !ok && err != raft.ErrLogNotFound:
			r.Fail("get-log", "GetLog(%d) of an absent index = (%s, %v), want raft.ErrLogNotFound", ix, logStr(&got), err)
		}
		if ok {
			nonTrivial++
		}
	}
	checkBounds := func() {
		wf, wl := bounds()
		f, err1 := st.FirstIndex()
		l, err2 := st.LastIndex()
		if err1 != nil || err2 != nil {
			r.Fail("bounds", "FirstIndex/LastIndex errors: %v / %v", err1, err2)
		}
		if f != wf || l != wl {
			r.Fail("bounds", "FirstIndex,LastIndex = %d,%d; model has %d,%d (%d entries)", f, l, wf, wl, len(logs))
		}
	}
	for i, s := range r.Tape.Steps {
		r.cur = i
		r.Tick(1, 0)
		switch s.Op {
		case "store":
			l := mkLog(uint64(s.X), uint64(s.Y), s.K, s.Kind, r.Tape.Seed)
			if err := st.StoreLog(l); err != nil {
				r.Fail("store", "StoreLog(%s) returned %v", logStr(l), err)
			}
			logs[l.Index] = l
			r.Logf("store %d", l.Index)
			r.Count("op.store")
		case "storemany":
			var batch []*raft.Log
			ix := uint64(s.X)
			rng := r.StepRng("many")
			for j := 0; j < s.K; j++ {
				if ix < uint64(s.X) { // wrapped around
					break
				}
				batch = append(batch, mkLog(ix, uint64(s.Y)%7, rng.IntN(6), payloadKind(rng), uint64(s.Y)))
				if s.Kind == "gaps" {
					ix += 1 + uint64(rng.IntN(3))
				} else {
					ix++
				}
			}
			if err := st.StoreLogs(batch); err != nil {
				r.Fail("store", "StoreLogs(%d entries from %d) returned %v", len(batch), uint64(s.X), err)
			}
			for _, l := range batch {
				logs[l.Index] = l
			}
			r.Logf("storemany %d+%d", uint64(s.X), len(batch))
			r.Count("op.storemany")
		case "get":
			checkGet(uint64(s.X))
			r.Logf("get %d", uint64(s.X))
			r.Count("op.get")
		case "delrange":
			a, b := uint64(s.X), uint64(s.Y)
			if err := st.DeleteRange(a, b); err != nil {
				if a <= b {
					r.Fail("delete-range", "DeleteRange(%d,%d) returned %v", a, b, err)
				}
				// an inverted (empty) range may be refused; it must then remove
				// nothing and leave the store usable — both checked below and by
				// every later step.
				r.Count("probe.inverted_range_refused")
			}
			if b == ^uint64(0) {
				r.Count("probe.delrange_max_u64")
			}
			removed := 0
			for k := range logs {
				if k >= a && k <= b {
					delete(logs, k)
					removed++
				}
			}
			if removed > 0 {
				nonTrivial++
			}
			// the neighbours must survive, the range must be gone
			for _, ix := range []uint64{a - 1, a, b, b + 1} {
				checkGet(ix)
			}
			checkBounds()
			r.Logf("delrange %d..%d removed %d", a, b, removed)
			r.Count("op.delrange")
		case "bounds":
			checkBounds()
			r.Logf("bounds")
			r.Count("op.bounds")
		case "set":
			if err := st.Set([]byte(s.Data), []byte(s.Kind)); err != nil {
				r.Fail("stable", "Set(%q) returned %v", s.Data, err)
			}
			kv[s.Data] = []byte(s.Kind)
			r.Logf("set %q", s.Data)
			r.Count("op.set")
		case "setu":
			if err := st.SetUint64([]byte(s.Data), uint64(s.X)); err != nil {
				r.Fail("stable", "SetUint64(%q) returned %v", s.Data, err)
			}
			b := make([]byte, 8)
			for j := 0; j < 8; j++ {
				b[j] = byte(uint64(s.X) >> (56 - 8*j))
			}
			kv[s.Data] = b
			r.Logf("setu %q", s.Data)
			r.Count("op.setu")
		case "sget":
			got, err := st.Get([]byte(s.Data))
			want, ok := kv[s.Data]
			switch {
			case ok && err != nil:
				r.Fail("stable", "Get(%q) = error %v, model has %q", s.Data, err, want)
			case ok && !bytes.Equal(got, want):
				r.Fail("stable", "Get(%q) = %q, model has %q", s.Data, got, want)
			case !ok && (err == nil || err.Error() != "not found"):
				r.Fail("stable", "Get(%q) of an absent key = (%q,%v), want the error \"not found\" raft tests for", s.Data, got, err)
			}
			if ok {
				nonTrivial++
			}
			r.Logf("sget %q %v", s.Data, ok)
			r.Count("op.sget")
		case "getu":
			want, ok := kv[s.Data]
			got, err := st.GetUint64([]byte(s.Data))
			switch {
			case ok && err != nil:
				r.Fail("stable", "GetUint64(%q) = error %v, model has %x", s.Data, err, want)
			case ok && got != beU64(want):
				r.Fail("stable", "GetUint64(%q) = %d, model has %d", s.Data, got, beU64(want))
			case !ok && (err == nil || err.Error() != "not found"):
				r.Fail("stable", "GetUint64(%q) of an absent key = (%d,%v), want the error \"not found\"", s.Data, got, err)
			}
			r.Logf("getu %q %v", s.Data, ok)
			r.Count("op.getu")
		case "reopen":
			if err := st.Close(); err != nil {
				r.Fail("reopen", "Close returned %v", err)
			}
			st = nil
			ns, err := consensus.NewSimRaftLog(dir, sync)
			if err != nil {
				r.Fail("reopen", "reopen failed: %v", err)
			}
			st = ns
			r.Logf("reopen")
			r.Count("fault.close_reopen")
		case "audit":
			checkBounds()
			var ks []uint64
			for k := range logs {
				ks = append(ks, k)
			}
			sort.Slice(ks, func(i, j int) bool { return ks[i] < ks[j] })
			for _, k := range ks {
				checkGet(k)
				checkGet(k + 1)
			}
			var sk []string
			for k := range kv {
				sk = append(sk, k)
			}
			sort.Strings(sk)
			for _, k := range sk {
				got, err := st.Get([]byte(k))
				if err != nil || !bytes.Equal(got, kv[k]) {
					r.Fail("stable", "final Get(%q) = (%q,%v), model has %q", k, got, err, kv[k])
				}
			}
			r.Logf("audit %d logs %d keys", len(ks), len(sk))
		}
	}
	if nonTrivial >= 3 {
		r.Distinct("tape:" + r.Tape.stepsKey())
	}
	r.CountN("reads.nonempty", int64(nonTrivial))
	r.Sample(map[string]interface{}{"seed": r.Tape.Seed, "first_steps": firstSteps(r.Tape, 6)})
}

func beU64(b []byte) uint64 {
	var x uint64
	for _, c := range b {
		x = x<<8 | uint64(c)
	}
	return x
}

var _ = hex.EncodeToString
