package qedsim

// C10 — queries concurrent with insertions are answered from a consistent
// state. World A, one node, parked-thread schedule control: the apply runs in
// its own goroutine and is parked at the store seam — between the in-memory
// computation of the insertion and its store write, and between the store
// write and the return of Apply — while query goroutines are started; the
// harness releases one goroutine at a time. A goroutine that blocks on a QED
// lock is recognised by its state in runtime.Stack (a mutex wait is not
// otherwise observable). Recorded invoke/return events (kernel sequence
// numbers) are checked with porcupine against a sequential log model.

import (
	"bytes"
	"fmt"
	"regexp"
	"runtime"
	"strings"
	"time"

	"github.com/anishathalye/porcupine"
	"github.com/bbva/qed/balloon"
	"github.com/bbva/qed/consensus"
	"github.com/bbva/qed/crypto/hashing"
	"github.com/hashicorp/raft"
)

func init() {
	register(&Property{ID: "C10", Gen: genC10, Exec: execC10, Simplify: simplifyWorldA})
}

func genC10(seed uint64, tier string) *Tape {
	rng := NewRng(seed, "C10")
	t := &Tape{Cfg: map[string]int64{"nodes": 1, "trailing": 2}}
	n := 8 + rng.IntN(16)
	if tier == "thorough" {
		n = 20 + rng.IntN(40)
	}
	t.Steps = append(t.Steps, Step{Op: "elect"}, Step{Op: "add", K: 1 + rng.IntN(4), Kind: "api", Data: "sync"})
	for i := 0; i < n; i++ {
		x := rng.IntN(100)
		switch {
		case x < 20:
			t.Steps = append(t.Steps, Step{Op: "add", K: 1 + rng.IntN(5), Kind: "api", Data: "sync"})
		case x < 30:
			t.Steps = append(t.Steps, Step{Op: "q", K: 1 + rng.IntN(3), X: int64(rng.IntN(1 << 20))})
		default:
			// a concurrent add: K events, park points in Kind, Y queries per park
			t.Steps = append(t.Steps, Step{Op: "cadd", K: 1 + rng.IntN(5), Kind: []string{"before", "after", "both", "both"}[rng.IntN(4)], Y: int64(1 + rng.IntN(4)), X: int64(rng.IntN(1 << 20))})
		}
	}
	return t
}

// ---- porcupine model ------------------------------------------------------------

type c10Input struct {
	kind    string // add | mem | inc
	digests []string
	d       string
	version uint64
	hasVer  bool
	i, j    uint64
}
type c10Output struct {
	err     bool
	base    uint64
	exists  bool
	actual  uint64
	current uint64
	ok      bool
}

var c10Model = porcupine.Model{
	Init: func() interface{} { return []string{} },
	Step: func(state, input, output interface{}) (bool, interface{}) {
		st := state.([]string)
		in := input.(c10Input)
		out := output.(c10Output)
		switch in.kind {
		case "add":
			if out.err {
				return true, st
			}
			ns := append(append([]string{}, st...), in.digests...)
			return out.base == uint64(len(st)), ns
		case "mem":
			if out.err {
				return true, st
			}
			if len(st) == 0 {
				return false, st
			}
			if out.current != uint64(len(st))-1 {
				return false, st
			}
			last := -1
			for k, d := range st {
				if d == in.d {
					last = k
				}
			}
			if !out.exists {
				return last < 0, st
			}
			return last >= 0 && out.actual < uint64(len(st)) && st[out.actual] == in.d, st
		case "inc":
			if out.err {
				return true, st
			}
			return in.j < uint64(len(st)), st
		}
		return false, st
	},
	Equal: func(a, b interface{}) bool {
		x, y := a.([]string), b.([]string)
		if len(x) != len(y) {
			return false
		}
		for i := range x {
			if x[i] != y[i] {
				return false
			}
		}
		return true
	},
}

// ---- goroutine observation ------------------------------------------------------

var goroutineHdr = regexp.MustCompile(`(?m)^goroutine (\d+) \[([^\]]+)\]:`)

// goroutineState returns the wait state of goroutine gid as runtime.Stack prints it.
func goroutineState(gid string) (state string, found bool) {
	buf := make([]byte, 1<<20)
	buf = buf[:runtime.Stack(buf, true)]
	for _, m := range goroutineHdr.FindAllStringSubmatch(string(buf), -1) {
		if m[1] == gid {
			return m[2], true
		}
	}
	return "", false
}

// blockedOnLock: the goroutine waits for a sync lock, i.e. it cannot proceed
// until another goroutine runs.
func blockedOnLock(state string) bool {
	return strings.HasPrefix(state, "sync.") || strings.HasPrefix(state, "semacquire")
}

func curGID() string {
	buf := make([]byte, 64)
	buf = buf[:runtime.Stack(buf, false)]
	f := strings.Fields(string(buf))
	if len(f) > 1 {
		return f[1]
	}
	return ""
}

type c10Query struct {
	id       int
	in       c10Input
	out      c10Output
	done     chan struct{}
	started  chan struct{}
	gid      string
	panicv   *CapturedPanic
	err      error
	mp       *balloon.MembershipProof
	ip       *balloon.IncrementalProof
	call     int64
	ret      int64
	finished bool
}

func execC10(r *Run) {
	w := newWorldA(r)
	e := w.e
	nd := e.nodes[0]
	var seq int64
	tick := func() int64 { seq++; return seq }
	var ops []porcupine.Operation
	var pendingQ []*c10Query
	qid := 0
	// every digest ever proposed, in proposal order of acknowledged/committed adds
	startQuery := func(rng interface{ IntN(int) int }, inflight [][]byte) *c10Query {
		qid++
		q := &c10Query{id: qid, done: make(chan struct{}), started: make(chan struct{})}
		n := e.rlog.Len()
		kind := rng.IntN(10)
		switch {
		case kind < 2 && n >= 1:
			j := uint64(rng.IntN(int(n)))
			i := uint64(rng.IntN(int(j + 1)))
			q.in = c10Input{kind: "inc", i: i, j: j}
		default:
			var d []byte
			switch {
			case len(inflight) > 0 && rng.IntN(3) == 0:
				d = inflight[rng.IntN(len(inflight))]
			case n > 0 && rng.IntN(8) != 0:
				d = e.rlog.Digests[rng.IntN(int(n))]
			default:
				d = sha([]byte(fmt.Sprintf("never-%d-%d", r.Tape.Seed, qid)))
			}
			q.in = c10Input{kind: "mem", d: string(d)}
			if n > 0 && rng.IntN(2) == 0 {
				q.in.hasVer = true
				q.in.version = uint64(rng.IntN(int(n)))
			}
		}
		q.call = tick()
		go c10QueryBody(nd.rn, q)
		<-q.started
		// run it until it is done or blocked on a lock
		for spins := 0; ; spins++ {
			select {
			case <-q.done:
				q.ret = tick()
				q.finished = true
				return q
			default:
			}
			if st, found := goroutineState(q.gid); found && blockedOnLock(st) && spins > 3 {
				r.Count("probe.query_blocked_behind_apply")
				return q
			}
			if spins > 200000 {
				r.Fail("query-returns", "a query neither returned nor blocked on a lock")
			}
			runtime.Gosched()
			if spins%50 == 49 {
				time.Sleep(50 * time.Microsecond)
			}
		}
	}
	judge := func(q *c10Query) {
		what := fmt.Sprintf("query #%d (%s)", q.id, q.in.kind)
		if q.panicv != nil {
			if q.panicv.Harness {
				r.Bug("%s\n%s", q.panicv, q.panicv.Stack)
			}
			r.Fail("query-consistent", "%s issued while an insertion was in flight failed internally: %s", what, q.panicv)
		}
		out := c10Output{}
		switch q.in.kind {
		case "mem":
			if q.err != nil {
				out.err = true
				break
			}
			mp := q.mp
			out.exists, out.actual, out.current = mp.Exists, mp.ActualVersion, mp.CurrentVersion
			d := []byte(q.in.d)
			if mp.Exists {
				// the proof names versions: it must verify against the snapshots issued for them
				hyper := w.authenticHyper(mp.CurrentVersion)
				if mp.CurrentVersion >= e.rlog.Len() || hyper == nil {
					r.Fail("query-consistent", "%s answered with current version %d, which is not a version the log has issued a snapshot for (log has %d events)", what, mp.CurrentVersion, e.rlog.Len())
				}
				qv := mp.QueryVersion
				if qv > mp.CurrentVersion {
					qv = mp.CurrentVersion
				}
				if mp.ActualVersion <= qv {
					back := membershipOverWire(r, nil, mp)
					snap := &balloon.Snapshot{EventDigest: d, HistoryDigest: e.rlog.Hist.Root(mp.QueryVersion), HyperDigest: hyper, Version: mp.QueryVersion}
					if mp.QueryVersion < e.rlog.Len() && !back.DigestVerify(d, snap) {
						r.Fail("query-consistent", "%s: the proof (actual %d, query %d, current %d) does not verify against the snapshots issued for the versions it names — it mixes state from before and after an insertion", what, mp.ActualVersion, mp.QueryVersion, mp.CurrentVersion)
					}
					r.Count("oracle.concurrent_proofs_verified")
				}
			}
		case "inc":
			if q.err != nil {
				out.err = true
				break
			}
			if !verifyInc(r, incrementalOverWire(r, q.ip), e.rlog.Hist.Root(q.in.i), e.rlog.Hist.Root(q.in.j)) {
				r.Fail("query-consistent", "%s: consistency proof (%d,%d) does not verify against the issued snapshots", what, q.in.i, q.in.j)
			}
			r.Count("oracle.concurrent_proofs_verified")
		}
		q.out = out
		ops = append(ops, porcupine.Operation{ClientId: q.id % 6, Input: q.in, Call: q.call, Output: out, Return: q.ret})
		r.Logf("Q%d %s -> err=%v exists=%v actual=%d current=%d [%d,%d]", q.id, q.in.kind, out.err, out.exists, out.actual, out.current, q.call, q.ret)
	}
	// A returned proof is a value: what the caller does with it later (the HTTP
	// handler encodes it after the locks are gone) must not depend on insertions
	// that follow. One finished query in three is therefore judged only after
	// the next insertion has completed.
	type heldQ struct {
		q    *c10Query
		step int
	}
	var held []heldQ
	judgeLater := func(q *c10Query) {
		if subRng(r.Tape.Seed, uint64(q.id), "c10-hold").IntN(3) == 0 {
			held = append(held, heldQ{q, r.cur})
			r.Count("probe.proofs_consumed_after_a_later_insertion")
			return
		}
		judge(q)
	}
	flushHeldBefore := func(step int) {
		var keep []heldQ
		for _, h := range held {
			if h.step < step {
				judge(h.q)
			} else {
				keep = append(keep, h)
			}
		}
		held = keep
	}
	flushHeld := func() { flushHeldBefore(1 << 30) }
	recordAdd := func(digests [][]byte, base uint64, failed bool, call, ret int64) {
		in := c10Input{kind: "add"}
		for _, d := range digests {
			in.digests = append(in.digests, string(d))
		}
		ops = append(ops, porcupine.Operation{ClientId: 7, Input: in, Call: call, Output: c10Output{err: failed, base: base}, Return: ret})
	}
	for i, s := range r.Tape.Steps {
		r.cur = i
		r.Tick(1, 0)
		switch s.Op {
		case "elect":
			e.elect(nd)
		case "add":
			before := e.rlog.Len()
			call := tick()
			w.doAdd(s)
			ret := tick()
			if e.rlog.Len() > before {
				recordAdd(e.rlog.Digests[before:], before, false, call, ret)
			}
			flushHeld()
		case "q":
			rng := r.StepRng("q")
			for k := 0; k < s.K; k++ {
				q := startQuery(rng, nil)
				if !q.finished {
					r.Fail("query-returns", "a query blocked although no insertion was in flight")
				}
				judgeLater(q)
			}
		case "cadd":
			if !nd.up || e.leader != nd.id {
				continue
			}
			rng := r.StepRng("cadd")
			var ds []hashing.Digest
			var raw [][]byte
			for k := 0; k < s.K; k++ {
				ev := w.newEvent()
				d := sha(ev)
				w.events[string(d)] = ev
				ds = append(ds, d)
				raw = append(raw, d)
			}
			parked := make(chan string)
			resume := make(chan struct{})
			wantBefore := s.Kind == "before" || s.Kind == "both"
			wantAfter := s.Kind == "after" || s.Kind == "both"
			nd.store.beforeMutate = func() {
				if wantBefore {
					parked <- "between computing the insertion and writing it to the store"
					<-resume
				}
			}
			nd.store.afterMutate = func() {
				if wantAfter {
					parked <- "between the store write and the return of the apply"
					<-resume
				}
			}
			done := make(chan struct{})
			before := e.rlog.Len()
			call := tick()
			var applyPanic *CapturedPanic
			go func() {
				defer close(done)
				applyPanic = Capture(func() {
					f := e.proposeOn(nd, raft.LogCommand, consensus.SimEncodeAdd(ds))
					e.pumpKind = "sync"
					e.pump(nd, f)
					e.pumpKind = ""
				})
			}()
			var blocked []*c10Query
			for alive := true; alive; {
				select {
				case where := <-parked:
					r.Logf("APPLY parked %s", where)
					r.Count("fault.apply_parked")
					for k := 0; k < int(s.Y); k++ {
						q := startQuery(rng, raw)
						if q.finished {
							judgeLater(q)
						} else {
							blocked = append(blocked, q)
						}
					}
					resume <- struct{}{}
				case <-done:
					alive = false
				}
			}
			ret := tick()
			nd.store.beforeMutate, nd.store.afterMutate = nil, nil
			if applyPanic != nil {
				if vp, ok := applyPanic.Value.(violationPanic); ok {
					panic(vp)
				}
				if hp, ok := applyPanic.Value.(harnessPanic); ok {
					panic(hp)
				}
				r.Fail("query-consistent", "the insertion itself failed internally while queries were running: %s", applyPanic)
			}
			recordAdd(raw, before, e.rlog.Len() == before, call, ret)
			// queries that waited behind the insertion must complete now
			for _, q := range blocked {
				select {
				case <-q.done:
				case <-time.After(20 * time.Second):
					r.Fail("query-returns", "a query that blocked behind an insertion never returned after the insertion completed")
				}
				q.ret = tick()
				q.finished = true
				judgeLater(q)
			}
			pendingQ = nil
			flushHeldBefore(i) // proofs returned before this insertion are consumed after it
		}
	}
	_ = pendingQ
	r.cur = len(r.Tape.Steps)
	flushHeld()
	if len(ops) > 400 {
		ops = ops[len(ops)-400:]
		// a truncated history needs the right initial state: skip the check instead
		r.Count("probe.history_too_long_for_linearizability")
	} else {
		res := porcupine.CheckOperationsTimeout(c10Model, ops, 20*time.Second)
		switch res {
		case porcupine.Illegal:
			r.Fail("linearizable", "the recorded history of %d insertions and queries is not linearizable against the sequential log model", len(ops))
		case porcupine.Unknown:
			r.Count("probe.linearizability_inconclusive")
		default:
			r.Count("oracle.histories_linearizable")
		}
	}
	w.checkAgreement("replicas-agree")
	r.Distinct("c10:" + r.Tape.stepsKey())
	r.Sample(map[string]interface{}{"seed": r.Tape.Seed, "operations_in_history": len(ops), "events": e.rlog.Len(), "first_steps": firstSteps(r.Tape, 6)})
	_ = bytes.Equal
}

// c10QueryBody runs one query; its name is the marker blockedOnLock looks for.
func c10QueryBody(rn *consensus.RaftNode, q *c10Query) {
	defer close(q.done)
	q.gid = curGID()
	close(q.started)
	q.panicv = Capture(func() {
		switch q.in.kind {
		case "mem":
			if q.in.hasVer {
				q.mp, q.err = rn.QueryDigestMembershipConsistency([]byte(q.in.d), q.in.version)
			} else {
				q.mp, q.err = rn.QueryDigestMembership([]byte(q.in.d))
			}
		case "inc":
			q.ip, q.err = rn.QueryConsistency(q.in.i, q.in.j)
		}
	})
}

// runtimeYield lets other goroutines run while the harness polls a goroutine state.
func runtimeYield(spins int) {
	runtime.Gosched()
	if spins%50 == 49 {
		time.Sleep(50 * time.Microsecond)
	}
}
