package qedsim

// C20 — client sends writes to the leader only and reads to a live, permitted
// node. World D: the real client.HTTPClient (topology, retrier with 1 s
// back-off, health checker, discovery) inside a synctest bubble over the
// simulated HTTP network; node endpoints serve the REAL apihttp mux over a
// simulated cluster view, so not-leader redirects and /info/shards answers are
// produced by the real handler code with net/http's header semantics.

import (
	"encoding/json"
	"fmt"
	"net/http"
	"sort"
	"strings"
	"testing/synctest"
	"time"

	"github.com/bbva/qed/api/apihttp"
	"github.com/bbva/qed/client"
	"github.com/bbva/qed/crypto/hashing"
	"github.com/bbva/qed/protocol"
)

func init() {
	register(&Property{ID: "C20", Gen: genC20, Exec: execC20, Bubble: true, PanicOracle: "call-returns"})
}

func genC20(seed uint64, tier string) *Tape {
	rng := NewRng(seed, "C20")
	t := &Tape{Cfg: map[string]int64{}}
	n := 1 + rng.IntN(5)
	t.Cfg["endpoints"] = int64(n)
	t.Cfg["fix_pref"] = int64(rng.IntN(5))
	t.Cfg["fix_retries"] = int64(rng.IntN(3))
	t.Cfg["fix_discovery"] = int64(rng.IntN(2))
	t.Cfg["fix_health"] = int64(rng.IntN(2))
	t.Cfg["fix_revive"] = int64(rng.IntN(2))
	t.Cfg["fix_known"] = int64(1 + rng.IntN(n)) // how many endpoints the client is configured with
	steps := 20 + rng.IntN(50)
	if tier == "thorough" {
		steps = 60 + rng.IntN(200)
	}
	wFault := []int{0, 10, 25}[rng.IntN(3)]
	wLeader := []int{0, 4, 10}[rng.IntN(3)]
	for i := 0; i < steps; i++ {
		x := rng.IntN(100)
		switch {
		case x < wFault:
			kinds := []string{"down", "down", "e500", "e400", "slow", "trunc"}
			t.Steps = append(t.Steps, Step{Op: "mode", Node: rng.IntN(n), Kind: kinds[rng.IntN(len(kinds))], X: int64(500 + rng.IntN(4000))})
		case x < wFault+8:
			t.Steps = append(t.Steps, Step{Op: "mode", Node: rng.IntN(n), Kind: "ok"})
		case x < wFault+8+wLeader:
			switch rng.IntN(8) {
			case 0:
				t.Steps = append(t.Steps, Step{Op: "leader", Node: -1})
			case 1, 2:
				t.Steps = append(t.Steps, Step{Op: "member", Node: rng.IntN(n), K: rng.IntN(2)})
			default:
				t.Steps = append(t.Steps, Step{Op: "leader", Node: rng.IntN(n)})
			}
		case x < wFault+8+wLeader+8:
			t.Steps = append(t.Steps, Step{Op: "sleep", X: int64(rng.IntN(90000))})
		case x < wFault+8+wLeader+8+25:
			if rng.IntN(3) == 0 {
				t.Steps = append(t.Steps, Step{Op: "addbulk", K: 1 + rng.IntN(4)})
			} else {
				t.Steps = append(t.Steps, Step{Op: "add"})
			}
		default:
			t.Steps = append(t.Steps, Step{Op: "read", Kind: []string{"membership", "digest", "incremental"}[rng.IntN(3)], X: int64(rng.IntN(1 << 16))})
		}
	}
	// faults stop, then the client must converge
	t.Steps = append(t.Steps, Step{Op: "healall"}, Step{Op: "sleep", X: 61000}, Step{Op: "add"}, Step{Op: "add"}, Step{Op: "add"}, Step{Op: "read", Kind: "digest"}, Step{Op: "read", Kind: "membership"}, Step{Op: "fair", K: 2*n + 1 + rng.IntN(2*n)})
	return t
}

// rClient is the reference model of the client's endpoint bookkeeping, driven
// only by what the simulated network answered. Three-valued on purpose.
const (
	stAlive = iota
	stDead
	stUnknown
)

type rClient struct {
	primary   string
	endpoints []string
	state     map[string]int
	// created[u]: position in the network's event order at which the client's
	// endpoint object for u was (re)created; a health check that started before
	// it reports to the discarded object
	created map[string]int
	// typ[u]: node type of the list's endpoint object for u; detached: the
	// primary pointer's object is not the list's object for that URL
	typ      map[string]int
	detached bool
}

const (
	tPrimary = iota + 1
	tSecondary
)

func (m *rClient) update(primary string, secondaries []string, at int) {
	if m.created == nil {
		m.created = map[string]int{}
	}
	if m.typ == nil {
		m.typ = map[string]int{}
	}
	old := map[string]bool{}
	for _, e := range m.endpoints {
		old[e] = true
	}
	var eps []string
	if primary != "" {
		m.primary, m.detached = primary, false
		eps = append(eps, primary)
		m.state[primary] = stAlive // the primary endpoint object is always created anew
		m.created[primary] = at
		m.typ[primary] = tPrimary
	}
	for _, s := range secondaries {
		if s == "" {
			continue
		}
		if old[s] {
			m.typ[s] = tSecondary // the object is taken over, a former primary becomes a secondary
		} else {
			m.state[s] = stAlive
			m.created[s] = at
			m.typ[s] = tSecondary
			if s == m.primary && primary == "" {
				m.detached = true // the list got a new object; the primary pointer keeps the old one
			}
		}
		eps = append(eps, s)
	}
	if primary == "" && m.primary != "" {
		in := false
		for _, e := range eps {
			in = in || e == m.primary
		}
		if !in {
			m.detached = true // no leader named: the pointer stays, its object left the list
		}
	}
	m.endpoints = eps
}

// st is what is known for certain about the endpoint object a selection of u
// would use. A primary pointer whose object is no longer the list's object for
// that URL has its own marks, which the network does not reveal.
func (m *rClient) st(u string) int {
	if m.detached && u == m.primary {
		return stUnknown
	}
	return m.state[u]
}

func (m *rClient) inList(u string) bool {
	for _, e := range m.endpoints {
		if e == u {
			return true
		}
	}
	return false
}

func (m *rClient) secondaryAlive() string {
	for _, e := range m.endpoints {
		if m.typ[e] == tSecondary && m.st(e) == stAlive {
			return e
		}
	}
	return ""
}

// excluded says why read preference pref forbids u right now ("" = permitted),
// using only what is known for certain. The client keeps two notions apart:
// the primary *pointer* (kept when an update names no leader) and the node type
// of each endpoint in the list (a former primary listed as secondary is one).
func (m *rClient) excluded(pref client.ReadPref, u string) string {
	isSec := m.inList(u) && m.typ[u] == tSecondary
	isPrim := m.primary != "" && u == m.primary
	if !m.inList(u) && !isPrim {
		return "it is not part of the topology the client was given"
	}
	switch pref {
	case client.Primary:
		if !isPrim {
			return "it is not the primary"
		}
	case client.Secondary:
		if !isSec {
			return "it is not a secondary"
		}
	case client.PrimaryPreferred:
		if !isPrim {
			if m.primary != "" && m.st(m.primary) == stAlive {
				return "the primary is alive"
			}
			if !isSec {
				return "it is neither the primary nor a secondary"
			}
		}
	case client.SecondaryPreferred:
		if !isSec {
			if e := m.secondaryAlive(); e != "" {
				return "secondary " + e + " is alive"
			}
		}
	default: // Any: round-robin over the list only
		if !m.inList(u) {
			return "it is not in the endpoint list"
		}
	}
	return ""
}

// liveCandidate returns an endpoint that is certainly alive and permitted.
func (m *rClient) liveCandidate(pref client.ReadPref) string {
	primAlive := ""
	if m.primary != "" && m.st(m.primary) == stAlive {
		primAlive = m.primary
	}
	switch pref {
	case client.Primary:
		return primAlive
	case client.Secondary:
		return m.secondaryAlive()
	case client.PrimaryPreferred:
		if primAlive != "" {
			return primAlive
		}
		return m.secondaryAlive()
	case client.SecondaryPreferred:
		if e := m.secondaryAlive(); e != "" {
			return e
		}
		return primAlive
	}
	for _, e := range m.endpoints {
		if m.st(e) == stAlive {
			return e
		}
	}
	return ""
}

func shardsToUpdate(body []byte) (string, []string, bool) {
	var sh protocol.Shards
	if json.Unmarshal(body, &sh) != nil || sh.LeaderId == "" {
		return "", nil, false
	}
	var prim string
	var secs []string
	for id, s := range sh.Shards {
		u := fmt.Sprintf("%s://%s", sh.URIScheme, s.HTTPAddr)
		if id == sh.LeaderId {
			prim = u
		} else {
			secs = append(secs, u)
		}
	}
	sortStrings(secs)
	return prim, secs, true
}

func execC20(r *Run) {
	lg := newSimLogger()
	net := newSimHTTP()
	n := int(r.Cfg("endpoints"))
	if n < 1 {
		n = 1
	}
	log := newSimLog()
	view := &clusterView{up: map[string]bool{}}
	var names, urls []string
	for i := 0; i < n; i++ {
		name := fmt.Sprintf("n%d", i)
		names = append(names, name)
		urls = append(urls, "http://"+name+":8800")
		view.nodes = append(view.nodes, name)
		view.up[name] = true
		mux := apihttp.NewApiHttp(&simNodeAPI{name: name, log: log, view: view})
		net.addHost(name+":8800", apihttp.LogHandler(mux, lg))
	}
	view.leader = names[0]
	// the log has some content before the client shows up
	var evs []string
	for i := 0; i < 5; i++ {
		ev := fmt.Sprintf("pre-%d", i)
		evs = append(evs, ev)
		log.add(names[0], [][]byte{[]byte(ev)})
	}
	pref := client.ReadPref(r.Cfg("fix_pref"))
	retries := int(r.Cfg("fix_retries"))
	known := int(r.Cfg("fix_known"))
	if known < 1 || known > n {
		known = n
	}
	// the order in which secondaries are learned (a map iteration in the client)
	// is a function of the seed and of the set itself (hook H5)
	client.SimOrderHook = func(s []string) []string {
		rg := subRng(r.Tape.Seed, uint64(len(s)), "order/"+strings.Join(s, ","))
		rg.Shuffle(len(s), func(i, j int) { s[i], s[j] = s[j], s[i] })
		return s
	}
	r.OnCleanup(func() { client.SimOrderHook = nil })
	httpc := &http.Client{Transport: net}
	opts := []client.HTTPClientOptionF{client.SetHttpClient(httpc), client.SetURLs(urls[0], urls[1:known]...),
		client.SetReadPreference(pref), client.SetMaxRetries(retries), client.SetTopologyDiscovery(r.Cfg("fix_discovery") == 1),
		client.SetHealthChecks(r.Cfg("fix_health") == 1), client.SetAttemptToReviveEndpoints(r.Cfg("fix_revive") == 1),
		client.SetHasherFunction(hashing.NewSha256Hasher), client.SetLogger(lg), client.SetAPIKey("k")}
	model := &rClient{state: map[string]int{}}
	model.update(urls[0], urls[1:known], 0)
	var cl *client.HTTPClient
	var err error
	budget := (retries + 1) * (n + 3) * 3
	net.beginCall(budget * 2)
	cp := Capture(func() { cl, err = client.NewHTTPClient(opts...) })
	if cp != nil {
		if _, ok := cp.Value.(callBudgetExceeded); ok {
			r.Fail("call-returns", "client construction made more than %d round trips (it does not terminate)", budget*2)
		}
		if cp.Harness {
			r.Bug("%s\n%s", cp, cp.Stack)
		}
		r.Fail("call-returns", "client construction failed internally: %s", cp)
	}
	if err != nil {
		r.Bug("client: %v", err)
	}
	synctest.Wait()
	hostURL := func(h string) string { return "http://" + h }
	acked := 0
	wrongAck := func(format string, a ...interface{}) { r.Fail("acked-write", format, a...) }
	// digest consumes the requests of one call (or of background activity) and
	// runs the model + oracles over them.
	// digest consumes the requests of one call (or of background activity) and
	// runs the reference model + oracles over them. The model is three-valued
	// (alive / dead / unknown): it only knows what the network answered, and a
	// failed selection inside the client may have revived endpoints unseen, so
	// an oracle fires only on what is known for certain.
	revive := r.Cfg("fix_revive") == 1
	var readHosts []string // endpoints selected by the reads of the last digested call
	sawDiscovery := false
	digest := func(what string, callErr error, isRead bool) {
		recs := net.take()
		lastHost, attempts := "", 0
		readHosts = readHosts[:0]
		sawDiscovery = false
		firstWrite := true
		redirectedFrom := ""
		touched := map[string]bool{}
		// A selection may have failed: with revival on, every dead endpoint is
		// then alive again. A selection cannot fail while some endpoint is
		// certainly alive and acceptable to every selection the client makes
		// (reads by preference, discovery by Any), so then nothing is blurred.
		blur := func() {
			if revive && model.liveCandidate(pref) == "" {
				for _, e := range model.endpoints {
					if model.state[e] == stDead {
						model.state[e] = stUnknown
					}
				}
				r.Count("probe.possible_revive")
			}
		}
		// health checks run concurrently with calls: their verdict takes effect
		// when they complete, which may be in the middle of a (slow) request
		var health []reqRecord
		for _, q := range recs {
			if q.kind == "health" {
				health = append(health, q)
			}
		}
		sort.SliceStable(health, func(i, j int) bool { return health[i].doneSeq < health[j].doneSeq })
		applyHealth := func(upTo int) {
			for len(health) > 0 && health[0].doneSeq <= upTo {
				q := health[0]
				health = health[1:]
				r.Count("net.health_checks")
				if model.created[hostURL(q.host)] > q.seq {
					// the topology was replaced while this check was in flight: its
					// verdict went to an endpoint object nobody selects from any more
					r.Count("probe.stale_health_verdict")
					continue
				}
				if q.err == "" && q.status >= 200 && q.status < 300 {
					model.state[hostURL(q.host)] = stAlive
				} else {
					model.state[hostURL(q.host)] = stDead
				}
			}
		}
		defer applyHealth(1 << 62)
		for _, q := range recs {
			u := hostURL(q.host)
			r.Logf("REQ %s %s %s -> %d %s", q.host, q.method, q.path, q.status, trunc(q.err, 40))
			failed := q.err != "" || q.status >= 500
			if q.kind != "health" {
				applyHealth(q.seq)
			}
			switch q.kind {
			case "health":
				continue
			case "discovery":
				r.Count("net.discovery")
				sawDiscovery = true
				// inside a read call discovery only runs after a selection found
				// nothing — which, with revival on, has just revived every endpoint
				if isRead && revive {
					for _, e := range model.endpoints {
						if model.state[e] == stDead {
							model.state[e] = stUnknown
						}
					}
					r.Count("probe.certain_revive")
				}
			case "write":
				if q.method == "POST" && firstWrite {
					firstWrite = false
					if u != model.primary {
						r.Fail("write-to-leader-only", "%s: a write was sent to %s while the endpoint believed to be the leader is %s", what, u, model.primary)
					}
				}
				r.Count("net.writes")
			case "read":
				if u == lastHost && attempts <= retries {
					attempts++ // a retry of the same attempt, not a new selection
				} else {
					lastHost, attempts = u, 1
					readHosts = append(readHosts, u)
					// With revival on, a selection that finds nothing marks every endpoint
					// alive again, so a dead endpoint may legitimately be tried again —
					// unless some endpoint was certainly alive and permitted, in which
					// case no selection can have failed in between.
					if model.st(u) == stDead && (!revive || model.liveCandidate(pref) != "") {
						r.Fail("read-selection", "%s: a read was sent to %s, which the client had marked dead (preference %d; certainly alive and permitted: %q)", what, u, pref, model.liveCandidate(pref))
					}
					if why := model.excluded(pref, u); why != "" {
						r.Fail("read-selection", "%s: a read was sent to %s, which read preference %d excludes: %s", what, u, pref, why)
					}
					r.Count("oracle.read_selection_checked")
				}
				r.Count("net.reads")
			}
			touched[u] = true
			// a request to an endpoint the model holds dead, not flagged above, means
			// a selection failed unseen and revived everything
			if model.st(u) == stDead {
				blur()
			}
			applyHealth(q.doneSeq)
			// a request that follows a redirect is the transport's doing, not an
			// endpoint selection: its failure is charged to the endpoint that was
			// selected (the one that answered 301), its target keeps its state
			if redirectedFrom != "" {
				if failed || q.status >= 400 {
					if model.state[redirectedFrom] == stAlive {
						model.state[redirectedFrom] = stUnknown
					}
				}
				redirectedFrom = ""
				r.Count("probe.redirect_followed")
				continue
			}
			if q.status == http.StatusMovedPermanently {
				redirectedFrom = u
			}
			// outcome -> model
			switch {
			case q.status == http.StatusMovedPermanently:
				if p, s, ok := shardsToUpdate(q.resp); ok {
					model.update(p, s, q.doneSeq)
					r.Count("probe.redirect_taught_topology")
				} else {
					model.state[u] = stUnknown // the redirect hook fails on an undecodable body
				}
			case failed:
				model.state[u] = stDead
				blur()
			case q.status >= 400:
				if q.kind == "read" || q.kind == "discovery" {
					model.state[u] = stDead // callAny and discover mark the endpoint dead on any failed request
					blur()
				}
			default:
				model.state[u] = stAlive
				if q.kind == "discovery" && q.path == "/info/shards" {
					if p, s, ok := shardsToUpdate(q.resp); ok {
						model.update(p, s, q.doneSeq)
					}
				}
			}
		}
		if callErr != nil {
			// the call's own health checks are over before its last selection (a
			// background check completing later only loses a verdict here)
			applyHealth(1 << 62)
			// whatever the call touched without a definite verdict is unknown now
			for e := range touched {
				if model.state[e] == stAlive {
					model.state[e] = stUnknown
				}
			}
			blur()
		}
		if isRead && callErr == client.ErrNoEndpoint {
			if e := model.liveCandidate(pref); e != "" && !revive {
				r.Fail("read-selection", "%s returned %q although %s is live and permitted by read preference %d", what, callErr, e, pref)
			}
		}
	}
	call := func(what string, isRead bool, f func() error) error {
		net.beginCall(budget)
		var cerr error
		t0 := time.Now()
		cp := Capture(func() { cerr = f() })
		net.beginCall(0)
		if cp != nil {
			if be, ok := cp.Value.(callBudgetExceeded); ok {
				r.Fail("call-returns", "%s made %d round trips without returning (bound: attempts x (endpoints+3) x 3 = %d)", what, be.n, budget)
			}
			if cp.Harness {
				r.Bug("%s\n%s", cp, cp.Stack)
			}
			r.Fail("call-returns", "%s failed internally: %s", what, cp)
		}
		if d := time.Since(t0); d > time.Duration(budget)*3*time.Second {
			r.Fail("call-returns", "%s took %v of simulated time", what, d)
		}
		synctest.Wait()
		digest(what, cerr, isRead)
		r.Tick(1, int64(time.Since(t0)/time.Millisecond))
		return cerr
	}
	digest("construction", nil, false)
	evc := 0
	healed, postHealAdds, postHealAcked, canRecover := false, 0, 0, false
	for i, s := range r.Tape.Steps {
		r.cur = i
		switch s.Op {
		case "mode":
			h := net.hosts[names[s.Node%n]+":8800"]
			h.mode, h.delay = s.Kind, time.Duration(s.X)*time.Millisecond
			r.Logf("MODE %s %s", h.name, s.Kind)
			r.Count("fault.http_" + s.Kind)
		case "healall":
			for _, nm := range names {
				net.hosts[nm+":8800"].mode = "ok"
			}
			view.mu.Lock()
			for _, nm := range names {
				view.up[nm] = true
			}
			if view.leader == "" {
				view.leader = names[0]
			}
			view.mu.Unlock()
			r.Logf("HEAL")
			healed = true
		case "leader":
			view.mu.Lock()
			if s.Node < 0 {
				view.leader = "" // an election is in progress: nobody knows a leader
			} else {
				view.leader = names[s.Node%n]
			}
			r.Logf("LEADER %q", view.leader)
			view.mu.Unlock()
			r.Count("fault.leader_moves")
		case "member":
			// the cluster metadata loses / regains a node: it is no longer listed
			// in the shards document (also when it is the leader)
			view.mu.Lock()
			view.up[names[s.Node%n]] = s.K == 1
			view.mu.Unlock()
			r.Logf("MEMBER %s listed=%v", names[s.Node%n], s.K == 1)
			r.Count("fault.metadata_member_toggle")
		case "sleep":
			time.Sleep(time.Duration(s.X) * time.Millisecond)
			synctest.Wait()
			digest("background", nil, false)
			r.Tick(1, s.X)
		case "add", "addbulk":
			before := log.version()
			leaderBefore := view.leader
			liveBeforeCall := model.liveCandidate(client.Any)
			var got []*protocol.Snapshot
			what := fmt.Sprintf("Add#%d", i)
			cerr := call(what, false, func() error {
				if s.Op == "add" {
					evc++
					sn, e := cl.Add(fmt.Sprintf("ev-%d-%d", r.Tape.Seed, evc))
					if sn != nil {
						got = []*protocol.Snapshot{sn}
					}
					return e
				}
				var evs []string
				for j := 0; j < s.K; j++ {
					evc++
					evs = append(evs, fmt.Sprintf("ev-%d-%d", r.Tape.Seed, evc))
				}
				var e error
				got, e = cl.AddBulk(evs)
				return e
			})
			after := log.version()
			want := uint64(1)
			if s.Op == "addbulk" {
				want = uint64(s.K)
			}
			r.Logf("%s -> err=%v snapshots=%d executed=%d", what, cerr, len(got), after-before)
			if healed {
				if postHealAdds == 0 {
					// can the client get out of "primary is dead" at all? health checks
					// revive endpoints; discovery needs an endpoint it may still ask
					// (health checks cover the endpoint list only: a primary pointer whose
					// object left the list — an update that named no known leader — is
					// never checked again and needs discovery)
					canRecover = (r.Cfg("fix_health") == 1 && !model.detached) || (r.Cfg("fix_discovery") == 1 && (revive || liveBeforeCall != ""))
				}
				postHealAdds++
				if cerr == nil {
					postHealAcked++
				}
			}
			if cerr == nil {
				acked++
				if after-before != want {
					wrongAck("%s returned without error but the cluster executed %d insertions for it (expected %d): the event was never added", what, after-before, want)
				}
				if uint64(len(got)) != want {
					wrongAck("%s returned %d snapshots without error, expected %d", what, len(got), want)
				}
				for k, sn := range got {
					v := before + uint64(k)
					is := log.snaps[v]
					if sn.Version != v || string(sn.HistoryDigest) != string(is.HistoryDigest) || string(sn.HyperDigest) != string(is.HyperDigest) || string(sn.EventDigest) != string(is.EventDigest) {
						wrongAck("%s: the snapshot returned to the caller (version %d) is not the one the leader issued (version %d)", what, sn.Version, v)
					}
					if log.execBy[v] != leaderBefore {
						wrongAck("%s: executed by %s, the leader was %s", what, log.execBy[v], leaderBefore)
					}
				}
				r.Count("oracle.acked_writes_checked")
			} else if after-before > want {
				wrongAck("%s executed %d insertions", what, after-before)
			}
		case "fair":
			// "cycling fairly among them": with every endpoint's state known for
			// certain and no fault in flight, k successive reads must spread over
			// the live permitted endpoints with counts that differ by at most one.
			stateKey := func() string {
				k := model.primary + "|"
				for _, e := range model.endpoints {
					k += fmt.Sprintf("%s=%d/%d,", e, model.st(e), model.typ[e])
				}
				return k
			}
			certain := !model.detached
			var permitted []string
			for _, e := range model.endpoints {
				if model.st(e) == stUnknown {
					certain = false
				}
			}
			for _, e := range model.endpoints {
				if model.st(e) == stAlive && model.excluded(pref, e) == "" {
					permitted = append(permitted, e)
				}
			}
			if !certain || len(permitted) < 2 || log.version() == 0 {
				r.Count("probe.fairness_skipped_uncertain_or_single")
				break
			}
			before := stateKey()
			hits := map[string]int{}
			ok := true
			cur := log.version()
			for j := 0; j < s.K && ok; j++ {
				v := cur - 1
				cerr := call(fmt.Sprintf("Fair#%d.%d", i, j), true, func() error {
					_, e := cl.Incremental(0, v)
					return e
				})
				if cerr != nil || sawDiscovery || len(readHosts) != 1 || stateKey() != before {
					ok = false
					break
				}
				hits[readHosts[0]]++
			}
			if !ok {
				r.Count("probe.fairness_skipped_disturbed")
				break
			}
			lo, hi := s.K, 0
			for _, e := range permitted {
				if hits[e] < lo {
					lo = hits[e]
				}
				if hits[e] > hi {
					hi = hits[e]
				}
			}
			if hi-lo > 1 {
				r.Fail("fair-cycling", "%d successive reads with preference %d over the live permitted endpoints %v were distributed %v (counts must differ by at most one)", s.K, pref, permitted, hits)
			}
			r.Count("oracle.fair_cycling_checked")
		case "read":
			what := fmt.Sprintf("Read#%d/%s", i, s.Kind)
			cur := log.version()
			ev := []byte(evs[int(s.X)%len(evs)])
			v := cur - 1
			cerr := call(what, true, func() error {
				switch s.Kind {
				case "membership":
					_, e := cl.Membership(ev, &v)
					return e
				case "digest":
					_, e := cl.MembershipDigest(sha(ev), &v)
					return e
				default:
					_, e := cl.Incremental(0, v)
					return e
				}
			})
			r.Logf("%s -> err=%v", what, cerr)
		}
	}
	r.cur = len(r.Tape.Steps)
	// convergence: faults stopped and a discovery or redirect was possible — the
	// last writes of the tape (after healall) must have reached the leader
	if canRecover && postHealAdds >= 3 && postHealAcked == 0 {
		r.Fail("converges", "every endpoint has been healthy for 61 simulated seconds and health checks, or discovery with an endpoint left to ask, are available, but none of the %d following writes reached the leader", postHealAdds)
	}
	if postHealAcked > 0 {
		r.Count("oracle.converged_after_faults")
	}
	cl.Close()
	synctest.Wait()
	r.Distinct("c20:" + r.Tape.stepsKey() + fmt.Sprint(r.Tape.Cfg))
	r.Sample(map[string]interface{}{"seed": r.Tape.Seed, "cfg": r.Tape.Cfg, "acked_writes": acked, "first_steps": firstSteps(r.Tape, 6)})
	_ = strings.TrimSpace
}
