package qedsim

// C16 — a backup restores to exactly the log as of the backup's version.
// World A, single node on RocksDB: seeded sequences of add / backup (API and
// management HTTP) / delete-backup / list / restart / restore into a fresh
// directory (by id and "latest", through the store and through the
// backup-engine calls cmd/restore.go makes), then a node is opened on the
// restored directory, must be the log as of the backup, and goes on from there.

import (
	"bytes"
	"encoding/json"
	"fmt"
	"os"
	"sort"

	"github.com/bbva/qed/balloon"
	"github.com/bbva/qed/consensus"
	"github.com/bbva/qed/crypto/hashing"
	"github.com/bbva/qed/protocol"
	"github.com/bbva/qed/rocksdb"
	"github.com/bbva/qed/storage/rocks"
	"github.com/hashicorp/raft"
)

func init() {
	register(&Property{ID: "C16", Gen: genC16, Exec: execC16, Simplify: simplifyWorldA})
}

func genC16(seed uint64, tier string) *Tape {
	rng := NewRng(seed, "C16")
	t := &Tape{Cfg: map[string]int64{"nodes": 1, "trailing": 2}}
	n := 10 + rng.IntN(25)
	if tier == "thorough" {
		n = 30 + rng.IntN(90)
	}
	t.Steps = append(t.Steps, Step{Op: "elect"})
	if rng.IntN(4) == 0 {
		t.Steps = append(t.Steps, Step{Op: "backup", Kind: "api"}) // backup of an empty log
	}
	for i := 0; i < n; i++ {
		x := rng.IntN(100)
		switch {
		case x < 40:
			s := Step{Op: "add", K: 1, Kind: "api", Data: "sync", X: int64([]int{0, 0, 1, 2}[rng.IntN(4)])}
			if rng.IntN(2) == 0 {
				s.K = 1 + rng.IntN(6)
			}
			if s.X == 1 {
				s.Kind, s.Y = "raw", int64(rng.IntN(256))
			}
			t.Steps = append(t.Steps, s)
		case x < 58:
			t.Steps = append(t.Steps, Step{Op: "backup", Kind: []string{"api", "http"}[rng.IntN(2)]})
		case x < 66:
			t.Steps = append(t.Steps, Step{Op: "delbackup", X: int64(rng.IntN(1 << 16)), Kind: []string{"api", "http"}[rng.IntN(2)]})
		case x < 70:
			t.Steps = append(t.Steps, Step{Op: "list", Kind: []string{"api", "http"}[rng.IntN(2)]})
		case x < 74:
			// two overlapping backups and an insertion that arrives in between
			t.Steps = append(t.Steps, Step{Op: "cbackup", K: 1 + rng.IntN(3)})
		case x < 80:
			t.Steps = append(t.Steps, Step{Op: "stop", Kind: []string{"clean", "crash"}[rng.IntN(2)]}, Step{Op: "start"}, Step{Op: "elect"})
			if rng.IntN(2) == 0 {
				t.Steps = append(t.Steps, Step{Op: "backup", Kind: "api"}) // right after a restart
			}
		default:
			t.Steps = append(t.Steps, Step{Op: "restore", X: int64(rng.IntN(1 << 16)), Kind: []string{"store-id", "store-id", "engine-id", "engine-latest"}[rng.IntN(4)], K: rng.IntN(4)})
		}
	}
	t.Steps = append(t.Steps, Step{Op: "backup", Kind: "api"}, Step{Op: "add", K: 2, Kind: "api", Data: "sync"}, Step{Op: "list", Kind: "http"},
		Step{Op: "restore", Kind: "engine-latest", K: 2}, Step{Op: "restore", Kind: "store-id", X: 0, K: 1})
	return t
}

// c16Unknown marks a backup whose content the model cannot know (it raced an insertion).
const c16Unknown = ^uint64(0)

// c16ConcurrentBackup: backup B1 is parked inside the store's Backup call;
// backup B2 and an insertion are started behind it, then B1 is released.
func (w *worldA) c16ConcurrentBackup(nd *simNode, s Step, backups map[uint32]uint64) {
	r := w.r
	e := w.e
	if e.leader != nd.id {
		return
	}
	before := nd.rn.SimBalloonVersion()
	parked, resume := make(chan struct{}), make(chan struct{})
	first := true
	nd.store.beforeBackup = func() {
		if first {
			first = false
			parked <- struct{}{}
			<-resume
		}
	}
	defer func() { nd.store.beforeBackup = nil }()
	type res struct {
		err error
		cp  *CapturedPanic
	}
	run := func(f func() error) (chan res, chan string) {
		done, gid := make(chan res, 1), make(chan string, 1)
		go func() {
			gid <- curGID()
			var out res
			out.cp = Capture(func() { out.err = f() })
			done <- out
		}()
		return done, gid
	}
	waitBlocked := func(gid string, done chan res) bool {
		for spins := 0; spins < 400000; spins++ {
			if len(done) > 0 {
				return false
			}
			if st, ok := goroutineState(gid); ok && blockedOnLock(st) && spins > 3 {
				return true
			}
			runtimeYield(spins)
		}
		r.Bug("goroutine neither finished nor blocked")
		return false
	}
	d1, _ := run(nd.rn.CreateBackup)
	<-parked
	d2, g2 := run(nd.rn.CreateBackup)
	waitBlocked(<-g2, d2)
	var ds []hashing.Digest
	for k := 0; k < s.K; k++ {
		d := sha(w.newEvent())
		ds = append(ds, d)
	}
	dA, gA := run(func() error {
		f := e.proposeOn(nd, raft.LogCommand, consensus.SimEncodeAdd(ds))
		e.pumpKind = "sync"
		_, err := e.pump(nd, f)
		e.pumpKind = ""
		return err
	})
	waitBlocked(<-gA, dA)
	resume <- struct{}{}
	for _, d := range []chan res{d1, d2, dA} {
		out := <-d
		if out.cp != nil {
			if vp, ok := out.cp.Value.(violationPanic); ok {
				panic(vp)
			}
			if out.cp.Harness {
				r.Bug("%s\n%s", out.cp, out.cp.Stack)
			}
			r.Fail("backup-created", "a backup or insertion running concurrently failed internally: %s", out.cp)
		}
		if out.err != nil {
			r.Fail("backup-created", "a backup or insertion running concurrently failed: %v", out.err)
		}
	}
	var fresh []uint32
	for _, bi := range nd.rn.ListBackups() {
		if _, ok := backups[uint32(bi.ID)]; !ok {
			fresh = append(fresh, uint32(bi.ID))
		}
	}
	if len(fresh) != 2 {
		r.Fail("backup-list", "after two concurrent backups the list shows %d new backups", len(fresh))
	}
	sort.Slice(fresh, func(i, j int) bool { return fresh[i] < fresh[j] })
	backups[fresh[0]] = before     // B1 read the store before the insertion could run
	backups[fresh[1]] = c16Unknown // B2 raced the insertion
	r.Logf("CBACKUP #%d at %d events, #%d concurrent with an insertion of %d", fresh[0], before, fresh[1], s.K)
	r.Count("fault.concurrent_backup")
	// restore the racing one right away
	w.c16Restore(nd, fresh[1], c16Unknown, "store-id", 1, 1000+int(fresh[1]))
}

type c16Env struct{}

func (c16Env) Propose(n *consensus.RaftNode, data []byte) (interface{}, error) {
	return nil, raft.ErrNotLeader
}
func (c16Env) Fetch(n *consensus.RaftNode, req *consensus.FetchSnapshotRequest) (consensus.ClusterService_FetchSnapshotClient, error) {
	return nil, fmt.Errorf("no cluster")
}

func execC16(r *Run) {
	backups := map[uint32]uint64{} // id -> number of events at backup time
	nextID := uint32(1)
	restores := 0
	w := execWorldA(r, func(w *worldA, s Step) bool {
		nd := w.e.nodes[0]
		if !nd.up {
			return true
		}
		switch s.Op {
		case "backup":
			n := nd.rn.SimBalloonVersion()
			var err error
			if s.Kind == "http" {
				rec, cp := serve(nd.mgmtMux(), "POST", "/backup", nil)
				if cp != nil {
					w.e.failPanic(nd, "POST /backup", cp)
				}
				if rec.Code != 200 {
					err = fmt.Errorf("HTTP %d %s", rec.Code, rec.Body.String())
				}
			} else {
				cp := Capture(func() { err = nd.rn.CreateBackup() })
				if cp != nil {
					w.e.failPanic(nd, "CreateBackup", cp)
				}
			}
			if err != nil {
				r.Fail("backup-created", "creating a backup at %d events failed: %v", n, err)
			}
			// the engine chooses the id (it restarts from the highest existing id
			// when reopened): learn it from the listing, which must show exactly
			// one backup that did not exist before
			var fresh []uint32
			for _, bi := range nd.rn.ListBackups() {
				if _, ok := backups[uint32(bi.ID)]; !ok {
					fresh = append(fresh, uint32(bi.ID))
				}
			}
			if len(fresh) != 1 {
				r.Fail("backup-list", "after creating one backup the list shows %d new backups (%v); existing before: %v", len(fresh), fresh, c16IDs(backups))
			}
			nextID = fresh[0]
			backups[nextID] = n
			r.Logf("BACKUP #%d at %d events", nextID, n)
			r.Count("op.backup")
			w.c16List(nd, backups, "api")
		case "cbackup":
			w.c16ConcurrentBackup(nd, s, backups)
		case "delbackup":
			ids := c16IDs(backups)
			if len(ids) == 0 {
				return true
			}
			id := ids[int(s.X)%len(ids)]
			var err error
			if s.Kind == "http" {
				rec, cp := serve(nd.mgmtMux(), "DELETE", fmt.Sprintf("/backup?backupID=%d", id), nil)
				if cp != nil {
					w.e.failPanic(nd, "DELETE /backup", cp)
				}
				if rec.Code != 204 {
					err = fmt.Errorf("HTTP %d", rec.Code)
				}
			} else {
				err = nd.rn.DeleteBackup(id)
			}
			if err != nil {
				r.Fail("backup-deleted", "deleting backup %d failed: %v", id, err)
			}
			delete(backups, id)
			r.Logf("DELETE #%d", id)
			r.Count("op.delete_backup")
			w.c16List(nd, backups, s.Kind)
		case "list":
			w.c16List(nd, backups, s.Kind)
		case "restore":
			ids := c16IDs(backups)
			if len(ids) == 0 {
				return true
			}
			id := ids[int(s.X)%len(ids)]
			if s.Kind == "engine-latest" || s.Kind == "store-latest" {
				id = ids[len(ids)-1]
			}
			restores++
			w.c16Restore(nd, id, backups[id], s.Kind, s.K, restores)
		default:
			return false
		}
		return true
	})
	_ = w
	if restores > 0 {
		r.Distinct("c16:" + r.Tape.stepsKey())
	}
}

func c16IDs(b map[uint32]uint64) []uint32 {
	var ids []uint32
	for id := range b {
		ids = append(ids, id)
	}
	sort.Slice(ids, func(i, j int) bool { return ids[i] < ids[j] })
	return ids
}

// c16List: listing shows exactly the existing backups, each recording its version.
func (w *worldA) c16List(nd *simNode, backups map[uint32]uint64, via string) {
	r := w.r
	var got []*protocol.BackupInfo
	if via == "http" {
		rec, cp := serve(nd.mgmtMux(), "GET", "/backups", nil)
		if cp != nil {
			w.e.failPanic(nd, "GET /backups", cp)
		}
		if rec.Code != 200 || json.Unmarshal(rec.Body.Bytes(), &got) != nil {
			r.Fail("backup-list", "GET /backups answered %d %s", rec.Code, trunc(rec.Body.String(), 100))
		}
	} else {
		for _, bi := range nd.rn.ListBackups() {
			got = append(got, &protocol.BackupInfo{ID: bi.ID, Metadata: bi.Metadata})
		}
	}
	if len(got) != len(backups) {
		r.Fail("backup-list", "the list shows %d backups, %d exist (%v)", len(got), len(backups), c16IDs(backups))
	}
	for _, bi := range got {
		n, ok := backups[uint32(bi.ID)]
		if !ok {
			r.Fail("backup-list", "the list shows backup %d, which does not exist (existing: %v)", bi.ID, c16IDs(backups))
		}
		// (n-1 wraps for a backup of an empty log: the recorded version plus one is
		// the number of events, in uint64 arithmetic, also when that number is 0)
		if n != c16Unknown && bi.Metadata != fmt.Sprint(n-1) {
			r.Fail("backup-version", "backup %d was taken of a log of %d events but records version %q (recorded version + 1 must be the number of events)", bi.ID, n, bi.Metadata)
		}
	}
	r.Count("oracle.list_checked")
}

// c16Restore restores backup id into a fresh directory, opens a node on it and
// checks that it is exactly the log as of the backup, then inserts more.
func (w *worldA) c16Restore(nd *simNode, id uint32, n uint64, how string, more int, seq int) {
	r := w.r
	dir := fmt.Sprintf("%s/restore%d", w.e.baseDir, seq)
	os.MkdirAll(dir, 0o755)
	defer os.RemoveAll(dir)
	var err error
	backupDir := nd.dbDir + "/backups"
	switch how {
	case "store-id":
		err = nd.raw.RestoreFromBackup(id, dir, dir)
	case "store-latest":
		err = nd.raw.RestoreFromLatestBackup(dir, dir)
	default: // what cmd/restore.go does
		bo := rocksdb.NewDefaultOptions()
		be, e := rocksdb.OpenBackupEngine(bo, backupDir)
		if e != nil {
			r.Fail("restore", "cannot open the backup engine on %s: %v", backupDir, e)
		}
		ro := rocksdb.NewRestoreOptions()
		if how == "engine-latest" {
			err = be.RestoreDBFromLatestBackup(dir, dir, ro)
		} else {
			err = be.RestoreDBFromBackup(id, dir, dir, ro)
		}
		ro.Destroy()
		be.Close()
		bo.Destroy()
	}
	if err != nil {
		r.Fail("restore", "restoring backup %d (%s) failed: %v", id, how, err)
	}
	r.Logf("RESTORE #%d (%d events) via %s", id, n, how)
	r.Count("fault.restore_" + how)
	st, err := rocks.NewRocksDBStore(dir, 0)
	if err != nil {
		r.Fail("restore", "cannot open the restored directory: %v", err)
	}
	ch := make(chan *protocol.Snapshot, 1024)
	var rn *consensus.RaftNode
	cp := Capture(func() { rn, err = consensus.NewSimRaftNode("restored", st, ch, w.e.logger, c16Env{}) })
	if cp != nil || err != nil {
		st.Close()
		if cp != nil && cp.Harness {
			r.Bug("%s\n%s", cp, cp.Stack)
		}
		r.Fail("restore", "cannot open a node on the restored directory: %v %v", err, cp)
	}
	defer func() {
		consensus.SimForget(rn)
		rn.Close(true)
	}()
	got := rn.SimBalloonVersion()
	if n == c16Unknown {
		n = got // taken while an insertion was racing it: whatever it holds, it must say so
		if got > w.e.rlog.Len() {
			r.Fail("restored-version", "the node restored from backup %d holds %d events, the log never had more than %d", id, got, w.e.rlog.Len())
		}
	}
	if got != n {
		r.Fail("restored-version", "backup %d was taken at %d events; the node restored from it holds %d", id, n, got)
	}
	for _, bi := range nd.rn.ListBackups() {
		if uint32(bi.ID) == id && bi.Metadata != fmt.Sprint(n-1) {
			r.Fail("backup-version", "backup %d records version %s but restores to a log of %d events (version %d)", id, bi.Metadata, n, n-1)
		}
	}
	rl := w.e.rlog
	rng := r.StepRng("restore")
	if n > 0 {
		cv := n - 1
		hyper := w.authenticHyper(cv)
		// events 0..v: proofs verify against the snapshots originally issued
		for t := 0; t < 8 && hyper != nil; t++ {
			ev := uint64(rng.IntN(int(n)))
			d := rl.Digests[ev]
			last := ev
			for _, x := range rl.versions[string(d)] {
				if x > last && x <= cv {
					last = x
				}
			}
			q := last + uint64(rng.IntN(int(cv-last)+1))
			mp, err := rn.QueryDigestMembershipConsistency(d, q)
			if err != nil || mp == nil || !mp.Exists {
				r.Fail("restored-proofs", "restored node (backup %d, version %d): membership query for event %d at version %d failed: %v", id, cv, ev, q, err)
			}
			if mp.CurrentVersion != cv {
				r.Fail("restored-version", "restored node reports current version %d, the backup was taken at %d", mp.CurrentVersion, cv)
			}
			back := membershipOverWire(r, nil, mp)
			if mp.ActualVersion <= q && !back.DigestVerify(d, &balloon.Snapshot{EventDigest: d, HistoryDigest: rl.Hist.Root(q), HyperDigest: hyper, Version: q}) {
				r.Fail("restored-proofs", "restored node (backup %d): membership proof for event %d at version %d does not verify against the originally issued snapshots", id, ev, q)
			}
			i := uint64(rng.IntN(int(n)))
			j := i + uint64(rng.IntN(int(n-i)))
			ip, err := rn.QueryConsistency(i, j)
			if err != nil || !verifyInc(r, incrementalOverWire(r, ip), rl.Hist.Root(i), rl.Hist.Root(j)) {
				r.Fail("restored-proofs", "restored node (backup %d): consistency proof (%d,%d) does not verify against the originally issued snapshots (err=%v)", id, i, j, err)
			}
			r.Count("oracle.restored_proofs_verified")
		}
	}
	// it knows nothing of events added after the backup
	for v := n; v < rl.Len() && v < n+4; v++ {
		d := rl.Digests[v]
		if fv, _ := rl.FirstVersion(d); fv < n {
			continue // a repeat of an earlier event
		}
		mp, err := rn.QueryDigestMembership(d)
		if err == nil && mp != nil && mp.Exists {
			r.Fail("restored-prefix-only", "restored node (backup %d at %d events) claims to hold event %d, which was added after the backup", id, n, v)
		}
		if _, err := rn.QueryConsistency(0, v); err == nil {
			r.Fail("restored-prefix-only", "restored node (backup %d at %d events) serves a consistency proof up to version %d", id, n, v)
		}
	}
	// it goes on from version n with the digests of the reference continuation
	ref := NewRLog()
	if n > 0 {
		// replay the committed calls of the first n events
		for v := uint64(0); v < n; {
			end := rl.CallEnd[v]
			ref.Append(rl.Digests[v : end+1])
			v = end + 1
		}
	}
	idx, _ := rn.SimState()
	for t := 0; t < more; t++ {
		k := 1 + rng.IntN(3)
		var ds []hashing.Digest
		var raw [][]byte
		for x := 0; x < k; x++ {
			d := sha([]byte(fmt.Sprintf("after-restore-%d-%d-%d-%d", r.Tape.Seed, seq, t, x)))
			ds = append(ds, d)
			raw = append(raw, d)
		}
		idx++
		var resp interface{}
		cp := Capture(func() {
			resp = rn.Apply(&raft.Log{Index: idx, Term: 9, Type: raft.LogCommand, Data: consensus.SimEncodeAdd(ds)})
		})
		if cp != nil {
			if cp.Harness {
				r.Bug("%s\n%s", cp, cp.Stack)
			}
			r.Fail("restored-continues", "restored node (backup %d): the next insertion failed internally: %s", id, cp)
		}
		snaps, aerr := consensus.SimResponse(resp)
		if aerr != nil || len(snaps) != k {
			r.Fail("restored-continues", "restored node (backup %d): the next insertion answered %d snapshots, err=%v", id, len(snaps), aerr)
		}
		base := ref.Append(raw)
		for x, sn := range snaps {
			v := base + uint64(x)
			if sn.Version != v {
				r.Fail("restored-continues", "restored node (backup %d at version %d) assigned version %d to the next event, expected %d", id, int64(n)-1, sn.Version, v)
			}
			if !bytes.Equal(sn.HistoryDigest, ref.Hist.Root(v)) {
				r.Fail("restored-continues", "restored node (backup %d): history digest of version %d differs from the reference continuation", id, v)
			}
			if hd, ok := ref.HyperAt[base+uint64(k)-1]; ok && !ref.Repeated() && !bytes.Equal(sn.HyperDigest, hd) {
				r.Fail("restored-continues", "restored node (backup %d): hyper digest after version %d differs from the reference continuation", id, base+uint64(k)-1)
			}
		}
		for len(ch) > 0 {
			<-ch
		}
		r.Count("oracle.continuation_checked")
	}
}
