package qedsim

// C18 — gossip is bounded, processed once per agent and never self-addressed.
// World C: 3-7 real gossip.Agents (hook H3) of mixed roles with real buses,
// BatchProcessors and task managers inside a synctest bubble, connected by a
// simulated gossip network (loss, duplication, reordering, delay, redelivery)
// with membership churn. One stimulus, then synctest.Wait().

import (
	"context"
	"crypto/sha256"
	"encoding/hex"
	"fmt"
	"math/rand/v2"
	"sort"
	"strings"
	"sync"
	"sync/atomic"
	"testing/synctest"
	"time"

	"github.com/bbva/qed/gossip"
	"github.com/bbva/qed/protocol"
	"github.com/hashicorp/memberlist"
	"github.com/prometheus/client_golang/prometheus"
)

func init() {
	register(&Property{ID: "C18", Gen: genC18, Exec: execC18, Bubble: true})
}

var gossipRoles = []string{"server", "auditor", "monitor", "publisher"}

func genC18(seed uint64, tier string) *Tape {
	rng := NewRng(seed, "C18")
	t := &Tape{Cfg: map[string]int64{}}
	na := 3 + rng.IntN(5)
	t.Cfg["agents"] = int64(na)
	t.Cfg["fix_cache"] = 1
	n := 30 + rng.IntN(70)
	if tier == "thorough" {
		n = 100 + rng.IntN(300)
	}
	wDrop := []int{0, 5, 15}[rng.IntN(3)]
	wDup := []int{0, 8, 20}[rng.IntN(3)]
	wChurn := []int{0, 6, 14}[rng.IntN(3)]
	for i := 0; i < n; i++ {
		x := rng.IntN(100)
		switch {
		case x < 16:
			k := 1 + rng.IntN(4)
			if rng.IntN(5) == 0 {
				k = 5 + rng.IntN(60) // batches as large as a busy sender makes them (kilobytes on the wire)
			}
			t.Steps = append(t.Steps, Step{Op: "batch", Node: rng.IntN(na), K: k, X: int64(rng.IntN(5))})
		case x < 16+wChurn:
			t.Steps = append(t.Steps, Step{Op: []string{"leave", "join", "update"}[rng.IntN(3)], Node: rng.IntN(na), K: rng.IntN(na)})
		case x < 16+wChurn+10:
			t.Steps = append(t.Steps, Step{Op: "sleep", X: int64(rng.IntN(400))})
		case x < 16+wChurn+10+6:
			t.Steps = append(t.Steps, Step{Op: "redeliver", X: int64(rng.IntN(1 << 16)), Node: rng.IntN(na)})
		default:
			kind := ""
			y := rng.IntN(100)
			if y < wDrop {
				kind = "drop"
			} else if y < wDrop+wDup {
				kind = "dup"
			}
			t.Steps = append(t.Steps, Step{Op: "deliver", X: int64(rng.IntN(1 << 16)), Kind: kind})
		}
	}
	t.Steps = append(t.Steps, Step{Op: "drain"})
	return t
}

type gWire struct {
	from, to string
	wire     []byte
	ttl      int
	payload  string // hash
}

type countingFactory struct {
	mu    *sync.Mutex
	news  map[string]int
	runs  map[string]int
	agent string
}

func (c countingFactory) Metrics() []prometheus.Collector { return nil }
func (c countingFactory) New(ctx context.Context) gossip.Task {
	b := ctx.Value("batch").(*protocol.BatchSnapshots)
	key := c.agent + "/" + batchKey(b)
	c.mu.Lock()
	c.news[key]++
	c.mu.Unlock()
	return func() error {
		// like the real task factories, look at the batch when the task RUNS:
		// it must still be the batch the task was created for
		now := c.agent + "/" + batchKey(b)
		c.mu.Lock()
		c.runs[now]++
		if now != key {
			c.news["WRONG-BATCH "+key+" ran on "+now]++
		}
		c.mu.Unlock()
		return nil
	}
}

func batchKey(b *protocol.BatchSnapshots) string {
	h := sha256.New()
	for _, s := range b.Snapshots {
		if s != nil && s.Snapshot != nil {
			fmt.Fprintf(h, "%d:%x:%x;", s.Snapshot.Version, s.Snapshot.EventDigest, s.Signature)
		}
	}
	return hex.EncodeToString(h.Sum(nil))[:12]
}

// gossipWorld is shared by C18 and C19.
type gossipWorld struct {
	r        *Run
	names    []string
	roles    map[string]string
	agents   map[string]*gossip.Agent
	mu       sync.Mutex
	emitted  []gWire
	inflight []gWire
	history  []gWire
	// model of each agent's topology: agent -> role -> set of names
	model map[string]map[string]map[string]bool
	stim  atomic.Uint64 // stimulus counter (bumped by collect)
}

func newGossipWorld(r *Run, na int, mk func(name, role string, idx int) *gossip.Agent) *gossipWorld {
	g := &gossipWorld{r: r, roles: map[string]string{}, agents: map[string]*gossip.Agent{}, model: map[string]map[string]map[string]bool{}}
	seed := r.Tape.Seed
	gossip.SimSendHook = func(a *gossip.Agent, dst *memberlist.Node, wire []byte) {
		var m gossip.Message
		m.Decode(wire)
		h := sha256.Sum256(m.Payload)
		g.mu.Lock()
		g.emitted = append(g.emitted, gWire{a.Self.Name, dst.Name, append([]byte{}, wire...), m.TTL, hex.EncodeToString(h[:6])})
		g.mu.Unlock()
	}
	gossip.SimShuffleHook = func(l *gossip.PeerList) bool {
		sort.Slice(l.L, func(i, j int) bool { return l.L[i].Name < l.L[j].Name })
		key := ""
		for _, p := range l.L {
			key += p.Name + ","
		}
		// The permutation depends on (seed, stimulus number, peer set) only: all
		// sends caused by one stimulus see the same permutation of a peer set, so
		// the order in which the runtime schedules concurrent sends cannot matter.
		n := g.stim.Load()
		if len(l.L) > 1 {
			rg := subRng(seed, n, "shuffle/"+key)
			rg.Shuffle(len(l.L), func(i, j int) { l.L[i], l.L[j] = l.L[j], l.L[i] })
		}
		return true
	}
	r.OnCleanup(func() { gossip.SimSendHook, gossip.SimShuffleHook = nil, nil })
	for i := 0; i < na; i++ {
		role := gossipRoles[i%len(gossipRoles)]
		name := fmt.Sprintf("%s%d", role[:1], i)
		g.names = append(g.names, name)
		g.roles[name] = role
		g.agents[name] = mk(name, role, i)
		g.model[name] = map[string]map[string]bool{}
	}
	synctest.Wait()
	// everybody learns about everybody (including itself, as memberlist does)
	for _, a := range g.names {
		for _, b := range g.names {
			g.notify(a, "join", b)
		}
	}
	return g
}

func (g *gossipWorld) notify(agent, what, about string) {
	a := g.agents[agent]
	node := g.agents[about].SimNode()
	role := g.roles[about]
	switch what {
	case "join":
		a.SimNotifyJoin(node)
	case "update":
		a.SimNotifyUpdate(node)
	case "leave":
		if !g.model[agent][role][about] {
			return // memberlist only reports the departure of a member it knew
		}
		a.SimNotifyLeave(node)
	}
	if g.model[agent][role] == nil {
		g.model[agent][role] = map[string]bool{}
	}
	if what == "leave" {
		delete(g.model[agent][role], about)
	} else {
		g.model[agent][role][about] = true
	}
	synctest.Wait()
	g.checkTopology(agent)
}

// checkTopology: the agent's view equals the model; Each never returns an
// excluded, dead, duplicate or nil peer.
func (g *gossipWorld) checkTopology(agent string) {
	r := g.r
	topo := g.agents[agent].SimTopology()
	for _, role := range gossipRoles {
		var got []string
		if l := topo.Get(role); l != nil {
			for _, p := range l.L {
				if p == nil {
					r.Fail("topology", "agent %s: nil peer in its %s list", agent, role)
				}
				got = append(got, p.Name)
			}
		}
		var want []string
		for n := range g.model[agent][role] {
			want = append(want, n)
		}
		sort.Strings(got)
		sort.Strings(want)
		if fmt.Sprint(got) != fmt.Sprint(want) {
			r.Fail("topology", "agent %s sees %s peers %v, the membership events it received give %v", agent, role, got, want)
		}
	}
	self := g.agents[agent].Self
	excl := &gossip.PeerList{L: []*gossip.Peer{self}}
	for n := 1; n <= 2; n++ {
		res := topo.Each(n, excl)
		seen := map[string]bool{}
		perRole := map[string]int{}
		for _, p := range res.L {
			if p == nil {
				r.Fail("topology", "agent %s: Each returned a nil peer", agent)
			}
			if p.Name == self.Name {
				r.Fail("topology", "agent %s: Each returned an excluded peer (itself)", agent)
			}
			if seen[p.Name] {
				r.Fail("topology", "agent %s: Each returned peer %s twice", agent, p.Name)
			}
			seen[p.Name] = true
			role := g.roles[p.Name]
			if !g.model[agent][role][p.Name] {
				r.Fail("topology", "agent %s: Each returned %s, which it was told has left", agent, p.Name)
			}
			perRole[role]++
			if perRole[role] > n {
				r.Fail("topology", "agent %s: Each(%d) returned %d peers of role %s", agent, n, perRole[role], role)
			}
		}
	}
	r.Count("oracle.topology_checked")
}

// collect gathers the wires emitted by the last stimulus, in canonical order.
func (g *gossipWorld) collect() []gWire {
	synctest.Wait()
	g.stim.Add(1)
	g.mu.Lock()
	e := g.emitted
	g.emitted = nil
	g.mu.Unlock()
	sort.Slice(e, func(i, j int) bool {
		if e[i].from != e[j].from {
			return e[i].from < e[j].from
		}
		if e[i].to != e[j].to {
			return e[i].to < e[j].to
		}
		return string(e[i].wire) < string(e[j].wire)
	})
	for _, w := range e {
		g.r.Logf("SEND %s->%s ttl=%d p=%s", w.from, w.to, w.ttl, w.payload)
		if w.from == w.to {
			g.r.Fail("no-self-send", "agent %s routed a message to itself", w.from)
		}
	}
	g.inflight = append(g.inflight, e...)
	return e
}

func execC18(r *Run) {
	lg := newSimLogger()
	mu := &sync.Mutex{}
	news, runs := map[string]int{}, map[string]int{}
	na := int(r.Cfg("agents"))
	if na < 2 {
		na = 2
	}
	g := newGossipWorld(r, na, func(name, role string, i int) *gossip.Agent {
		opts := []gossip.AgentOptionF{gossip.SetNodeName(name), gossip.SetRole(role), gossip.SetBindAddr(fmt.Sprintf("127.0.0.1:%d", 7000+i)),
			gossip.SetAdvertiseAddr(fmt.Sprintf("127.0.0.1:%d", 7000+i)), gossip.SetLogger(lg),
			gossip.SetTasksManager(gossip.NewSimpleTasksManagerWithLogger(200*time.Millisecond, 3, lg))}
		if r.Cfg("fix_cache") != 0 {
			opts = append(opts, gossip.SetCache(1<<20))
		}
		a, err := gossip.NewAgent(opts...)
		if err != nil {
			r.Bug("agent: %v", err)
		}
		if role != "server" {
			bp := gossip.NewBatchProcessor(a, []gossip.TaskFactory{countingFactory{mu, news, runs, name}}, lg)
			a.In.Subscribe(gossip.BatchMessageType, bp, 255)
		}
		a.SimStart()
		return a
	})
	nb := uint64(0)
	origTTL := map[string]int{}
	forwards := map[string]int{} // agent/payload -> forwards
	// pending: (agent/payload) -> TTLs with which the agent received (or published)
	// the batch and has not forwarded it yet. A forward may be delayed (the
	// processor blocks while the task queue is full), so wires are attributed by
	// payload, not by the stimulus that preceded them.
	pending := map[string][]int{}
	account := func(out []gWire) {
		groups := map[string]bool{}
		for _, o := range out {
			key := o.from + "/" + o.payload
			gk := fmt.Sprintf("%s/%d", key, o.ttl)
			if groups[gk] {
				continue
			}
			groups[gk] = true
			found := false
			for i, t := range pending[key] {
				if t == o.ttl+1 {
					pending[key] = append(pending[key][:i], pending[key][i+1:]...)
					found = true
					break
				}
			}
			if !found {
				r.Fail("ttl", "agent %s sent batch %s on with TTL %d, but it only ever held it with TTLs %v (every hop must lower the TTL by one; an exhausted TTL must not be sent on)", o.from, o.payload, o.ttl, pending[key])
			}
			forwards[key]++
			if forwards[key] > 1 && r.Cfg("fix_cache") != 0 {
				r.Fail("at-most-once", "agent %s forwarded batch %s %d times", o.from, o.payload, forwards[key])
			}
		}
	}
	deliver := func(w gWire, label string) {
		r.Logf("%s %s->%s ttl=%d p=%s", label, w.from, w.to, w.ttl, w.payload)
		pending[w.to+"/"+w.payload] = append(pending[w.to+"/"+w.payload], w.ttl)
		g.agents[w.to].SimDeliver(w.wire)
		account(g.collect())
		g.history = append(g.history, w)
		r.Count("net.delivered")
	}
	for i, s := range r.Tape.Steps {
		r.cur = i
		r.Tick(1, 0)
		switch s.Op {
		case "batch":
			name := g.names[s.Node%len(g.names)]
			b := &protocol.BatchSnapshots{}
			for j := 0; j < s.K; j++ {
				b.Snapshots = append(b.Snapshots, &protocol.SignedSnapshot{Snapshot: mkSnapshot(nb), Signature: fakeSig(nb)})
				nb++
			}
			payload, _ := b.Encode()
			h := sha256.Sum256(payload)
			origTTL[hex.EncodeToString(h[:6])] = int(s.X)
			r.Logf("BATCH at %s ttl=%d n=%d", name, s.X, s.K)
			pk := name + "/" + hex.EncodeToString(h[:6])
			pending[pk] = append(pending[pk], int(s.X))
			forwards[pk]-- // the origin's own send is not a forward
			g.agents[name].Out.Publish(&gossip.Message{Kind: gossip.BatchMessageType, TTL: int(s.X), Payload: payload})
			account(g.collect())
			if forwards[pk] < 0 {
				forwards[pk] = 0
			}
			r.Count("net.batches")
		case "deliver":
			if len(g.inflight) == 0 {
				continue
			}
			idx := int(s.X) % len(g.inflight)
			w := g.inflight[idx]
			if s.Kind != "dup" {
				g.inflight = append(g.inflight[:idx], g.inflight[idx+1:]...)
			} else {
				r.Count("fault.duplicate")
			}
			if s.Kind == "drop" {
				r.Count("fault.drop")
				r.Logf("DROP %s->%s", w.from, w.to)
				continue
			}
			deliver(w, "DELIVER")
		case "redeliver":
			if len(g.history) == 0 {
				continue
			}
			w := g.history[int(s.X)%len(g.history)]
			if s.Node%2 == 0 { // from another peer: same wire, other destination
				w.to = g.names[s.Node%len(g.names)]
			}
			r.Count("fault.redelivery")
			deliver(w, "REDELIVER")
		case "leave", "join", "update":
			a := g.names[s.Node%len(g.names)]
			b := g.names[s.K%len(g.names)]
			r.Logf("%s at %s about %s", s.Op, a, b)
			g.notify(a, s.Op, b)
			r.Count("fault.membership_" + s.Op)
		case "sleep":
			time.Sleep(time.Duration(s.X) * time.Millisecond)
			account(g.collect())
			r.Tick(0, s.X)
		case "drain":
			// faults stop: deliver everything still in flight and let delayed
			// forwards out; dissemination must terminate within the budget
			budget := 200 + 50*len(g.inflight) + 400*int(nb)
			k := 0
			for idle := 0; idle < 3; {
				for len(g.inflight) > 0 {
					k++
					if k > budget {
						r.Fail("termination", "dissemination did not terminate: %d wires still in flight after %d deliveries", len(g.inflight), k)
					}
					w := g.inflight[0]
					g.inflight = g.inflight[1:]
					deliver(w, "DELIVER")
					idle = 0
				}
				time.Sleep(time.Second)
				account(g.collect())
				r.Tick(0, 1000)
				if len(g.inflight) == 0 {
					idle++
				}
			}
		}
	}
	mu.Lock()
	keys := make([]string, 0, len(news))
	for k := range news {
		keys = append(keys, k)
	}
	sort.Strings(keys)
	for _, k := range keys {
		if strings.HasPrefix(k, "WRONG-BATCH ") {
			r.Fail("at-most-once", "a task created for one batch ran on another: %s (so one batch is processed twice and one never)", strings.TrimPrefix(k, "WRONG-BATCH "))
		}
		if news[k] > 1 && r.Cfg("fix_cache") != 0 {
			r.Fail("at-most-once", "tasks for batch %s were created %d times", k, news[k])
		}
		if runs[k] > news[k] {
			r.Fail("at-most-once", "tasks for batch %s ran %d times", k, runs[k])
		}
		r.Logf("TASKS %s new=%d run=%d", k, news[k], runs[k])
	}
	r.CountN("oracle.agent_batches_checked", int64(len(keys)))
	mu.Unlock()
	for _, a := range g.names {
		g.checkTopology(a)
		g.agents[a].SimStop()
	}
	synctest.Wait()
	if nb >= 2 {
		r.Distinct("c18:" + r.Tape.stepsKey())
	}
	r.Sample(map[string]interface{}{"seed": r.Tape.Seed, "agents": g.names, "batches": nb, "wires_delivered": len(g.history), "first_steps": firstSteps(r.Tape, 6)})
}

var _ = rand.IntN

// fakeSig is a signature-sized (64 bytes, as ed25519) stand-in: gossip never
// verifies signatures, but the size of a batch on the wire matters.
func fakeSig(n uint64) []byte {
	a := sha256.Sum256([]byte(fmt.Sprintf("sig-a-%d", n)))
	b := sha256.Sum256([]byte(fmt.Sprintf("sig-b-%d", n)))
	return append(a[:], b[:]...)
}
