package qedsim

// C13 — proofs and snapshots survive the wire format unchanged. Checked on
// genuine objects produced by World A runs (after restarts, elections and
// state transfer) and on synthetic position keys up to 2^63-1: encode -> decode
// preserves every field, and the decoded proof gives the same verdict as the
// original object for the authentic snapshot and for a panel of wrong ones.
// Pure round-trip property (no schedule dimension): it rides on the simulator
// because every simulated interaction crosses these encoders (DESIGN.md §8).

import (
	"bytes"
	"encoding/json"
	"fmt"
	"reflect"

	"github.com/bbva/qed/balloon"
	"github.com/bbva/qed/balloon/history"
	"github.com/bbva/qed/consensus"
	"github.com/bbva/qed/crypto/hashing"
	"github.com/bbva/qed/gossip"
	"github.com/bbva/qed/protocol"
)

var profC13 = &profile{
	nodes: []int{1, 1, 3}, steps: [2]int{10, 30}, stepsThor: [2]int{30, 120},
	w:          map[string]int{"add": 34, "rep": 8, "apply": 8, "wire": 12, "stop": 3, "start": 4, "elect": 2, "snap": 2, "lag": 2},
	pumps:      []string{"sync", "sync", "minimal"},
	digestKind: []int{0, 0, 1, 2},
	trailing:   []int{0, 1, 2},
	stopModes:  []string{"clean", "crash"},
}

func init() {
	register(&Property{ID: "C13", Gen: func(seed uint64, tier string) *Tape { return genWorldA(seed, tier, "C13", profC13) },
		Exec: func(r *Run) {
			w := execWorldA(r, func(w *worldA, s Step) bool {
				if s.Op == "wire" {
					w.wireSweep(w.node(s.Node), 4+s.K)
					return true
				}
				return false
			})
			r.cur = len(r.Tape.Steps)
			for _, nd := range w.e.nodes {
				w.wireSweep(nd, 10)
			}
			w.wireSynthetic()
		}, Simplify: simplifyWorldA})
}

func (w *worldA) wrongPanel(q uint64, rng interface{ IntN(int) int }) []*balloon.Snapshot {
	n := w.e.rlog.Len()
	flip := func(d []byte) []byte {
		x := append([]byte{}, d...)
		x[rng.IntN(len(x))] ^= 1 << uint(rng.IntN(8))
		return x
	}
	var out []*balloon.Snapshot
	o := uint64(rng.IntN(int(n)))
	out = append(out, &balloon.Snapshot{HistoryDigest: w.e.rlog.Hist.Root(o), HyperDigest: w.authenticHyperOr(o), Version: o})
	out = append(out, &balloon.Snapshot{HistoryDigest: flip(w.e.rlog.Hist.Root(q)), HyperDigest: w.authenticHyperOr(q), Version: q})
	out = append(out, &balloon.Snapshot{HistoryDigest: w.forkRoot(uint64(rng.IntN(int(q+1))), q), HyperDigest: flip(w.authenticHyperOr(q)), Version: q})
	out = append(out, &balloon.Snapshot{})
	return out
}

func (w *worldA) authenticHyperOr(v uint64) []byte {
	if h := w.authenticHyper(v); h != nil {
		return h
	}
	return make([]byte, 32)
}

func (w *worldA) wireSweep(nd *simNode, k int) {
	if nd == nil || !nd.up {
		return
	}
	r := w.r
	n := nd.rn.SimBalloonVersion()
	if n < 1 || (n != w.e.eventsThrough(nd.lastApplied) && n != w.e.eventsThrough(w.lastCmdIndex(nd))) {
		return
	}
	cv := n - 1
	hyper := w.authenticHyper(cv)
	if hyper == nil {
		return
	}
	rng := r.StepRng(fmt.Sprintf("wire%d", nd.id))
	rl := w.e.rlog
	for t := 0; t < k; t++ {
		// ---- membership answers (present and absent digests)
		ev := uint64(rng.IntN(int(n)))
		d := rl.Digests[ev]
		if rng.IntN(5) == 0 {
			d = sha([]byte(fmt.Sprintf("absent-%d", rng.IntN(1<<30))))
		}
		q := uint64(rng.IntN(int(n)))
		if rng.IntN(6) == 0 {
			// a version the log has not reached yet: the node answers for its
			// current version; that answer is genuine too and must survive the wire
			q = cv + []uint64{1, 2, 7, 1 << 20, 1<<63 - 1 - cv}[rng.IntN(5)]
			r.Count("probe.query_version_beyond_current")
		}
		mp, err := nd.rn.QueryDigestMembershipConsistency(d, q)
		if q > cv {
			q = cv // the snapshots such an answer can be judged against are the current ones
		}
		if err == nil && mp != nil {
			mr := protocol.ToMembershipResult(w.events[string(d)], mp)
			b, err := json.Marshal(mr)
			if err != nil {
				r.Fail("round-trip", "membership result does not encode: %v", err)
			}
			var back protocol.MembershipResult
			if err := json.Unmarshal(b, &back); err != nil {
				r.Fail("round-trip", "membership result does not decode: %v", err)
			}
			if back.Exists != mp.Exists || back.CurrentVersion != mp.CurrentVersion || back.QueryVersion != mp.QueryVersion ||
				back.ActualVersion != mp.ActualVersion || !bytes.Equal(back.KeyDigest, mp.KeyDigest) || !bytes.Equal(back.Key, w.events[string(d)]) {
				r.Fail("round-trip", "membership answer fields changed on the wire: sent exists=%v cur=%d query=%d actual=%d, got exists=%v cur=%d query=%d actual=%d",
					mp.Exists, mp.CurrentVersion, mp.QueryVersion, mp.ActualVersion, back.Exists, back.CurrentVersion, back.QueryVersion, back.ActualVersion)
			}
			if len(back.Hyper) != len(mp.HyperProof.AuditPath) {
				r.Fail("round-trip", "hyper audit path has %d entries after the wire, %d before", len(back.Hyper), len(mp.HyperProof.AuditPath))
			}
			for kk, vv := range mp.HyperProof.AuditPath {
				if !bytes.Equal(back.Hyper[kk], vv) {
					r.Fail("round-trip", "hyper audit path entry %s changed on the wire", kk)
				}
			}
			dec := protocol.ToBalloonProof(&back, hashing.NewSha256Hasher)
			if mp.HistoryProof != nil {
				if len(dec.HistoryProof.AuditPath) != len(mp.HistoryProof.AuditPath) {
					r.Fail("round-trip", "history audit path has %d entries after the wire, %d before", len(dec.HistoryProof.AuditPath), len(mp.HistoryProof.AuditPath))
				}
				for kk, vv := range mp.HistoryProof.AuditPath {
					if !bytes.Equal(dec.HistoryProof.AuditPath[kk], vv) {
						r.Fail("round-trip", "history audit path entry %x changed on the wire", kk)
					}
				}
			}
			auth := &balloon.Snapshot{EventDigest: d, HistoryDigest: rl.Hist.Root(q), HyperDigest: hyper, Version: q}
			for i, snap := range append([]*balloon.Snapshot{auth}, w.wrongPanel(q, rng)...) {
				v1, v2 := false, false
				c1 := Capture(func() { v1 = mp.DigestVerify(d, snap) })
				c2 := Capture(func() { v2 = dec.DigestVerify(d, snap) })
				if (c1 != nil) != (c2 != nil) || v1 != v2 {
					r.Fail("same-verdict", "membership proof for event %d at version %d of %d: original says %v, decoded says %v for snapshot #%d of the panel", ev, q, cv, v1, v2, i)
				}
				r.Count("oracle.verdicts_compared")
			}
			r.Distinct(fmt.Sprintf("mem:%d:%d:%d", n, ev, q))
		}
		// ---- incremental answers
		i := uint64(rng.IntN(int(n)))
		j := i + uint64(rng.IntN(int(n-i)))
		ip, err := nd.rn.QueryConsistency(i, j)
		if err == nil && ip != nil {
			ir := protocol.ToIncrementalResponse(ip)
			b, _ := json.Marshal(ir)
			var back protocol.IncrementalResponse
			if err := json.Unmarshal(b, &back); err != nil {
				r.Fail("round-trip", "incremental response does not decode: %v", err)
			}
			dec := protocol.ToIncrementalProof(&back, hashing.NewSha256Hasher)
			if dec.Start != ip.Start || dec.End != ip.End || len(dec.AuditPath) != len(ip.AuditPath) {
				r.Fail("round-trip", "incremental proof (%d,%d) with %d entries became (%d,%d) with %d entries", ip.Start, ip.End, len(ip.AuditPath), dec.Start, dec.End, len(dec.AuditPath))
			}
			for kk, vv := range ip.AuditPath {
				if !bytes.Equal(dec.AuditPath[kk], vv) {
					r.Fail("round-trip", "incremental audit path entry %x changed on the wire", kk)
				}
			}
			ri, rj := rl.Hist.Root(i), rl.Hist.Root(j)
			panel := [][2][]byte{{ri, rj}, {rj, ri}, {ri, w.forkRoot(uint64(rng.IntN(int(j+1))), j)}, {make([]byte, 32), rj}}
			for pi, p := range panel {
				v1 := verifyInc(r, ip, p[0], p[1])
				v2 := verifyInc(r, dec, p[0], p[1])
				if v1 != v2 {
					r.Fail("same-verdict", "incremental proof (%d,%d): original says %v, decoded says %v for digest pair #%d", i, j, v1, v2, pi)
				}
				r.Count("oracle.verdicts_compared")
			}
			r.Distinct(fmt.Sprintf("inc:%d:%d:%d", n, i, j))
		}
		// ---- snapshots, signed snapshots, batches
		v := uint64(rng.IntN(int(n)))
		if is, ok := w.e.issued[v]; ok {
			ps := protocol.Snapshot(*is)
			b, _ := ps.Encode()
			var back protocol.Snapshot
			if err := back.Decode(b); err != nil || !reflect.DeepEqual(ps, back) {
				r.Fail("round-trip", "snapshot %d changed on the wire (err=%v)", v, err)
			}
			ss := &protocol.SignedSnapshot{Snapshot: &ps, Signature: sha([]byte(fmt.Sprint(v)))}
			batch := &protocol.BatchSnapshots{Snapshots: []*protocol.SignedSnapshot{ss, ss}}
			bb, _ := batch.Encode()
			var bback protocol.BatchSnapshots
			if err := bback.Decode(bb); err != nil || !reflect.DeepEqual(*batch, bback) {
				r.Fail("round-trip", "signed snapshot batch changed on the wire (err=%v)", err)
			}
			// gossip message carrying it
			msg := &gossip.Message{Kind: gossip.BatchMessageType, TTL: rng.IntN(5), Payload: bb}
			wire, err := msg.Encode()
			var mback gossip.Message
			if err != nil || mback.Decode(wire) != nil || mback.Kind != msg.Kind || mback.TTL != msg.TTL || !bytes.Equal(mback.Payload, msg.Payload) {
				r.Fail("round-trip", "gossip message changed on the wire")
			}
		}
		// ---- replicated command
		m := 1 + rng.IntN(5)
		ds := make([]hashing.Digest, m)
		for x := range ds {
			ds[x] = rl.Digests[rng.IntN(int(n))]
		}
		got, ok, err := consensus.SimDecodeAdd(consensus.SimEncodeAdd(ds))
		if !ok || err != nil || len(got) != len(ds) {
			r.Fail("round-trip", "add command of %d digests decodes to %d (ok=%v err=%v)", len(ds), len(got), ok, err)
		}
		for x := range ds {
			if !bytes.Equal(ds[x], got[x]) {
				r.Fail("round-trip", "digest %d of an add command changed in its binary encoding", x)
			}
		}
		r.Count("oracle.round_trips")
	}
}

// wireSynthetic: position keys with indexes up to 2^63-1, FSM state codecs.
func (w *worldA) wireSynthetic() {
	r := w.r
	rng := r.NamedRng("synthetic")
	ap := history.AuditPath{}
	want := map[[10]byte][]byte{}
	for t := 0; t < 40; t++ {
		var idx uint64
		switch rng.IntN(4) {
		case 0:
			idx = uint64(rng.IntN(1000))
		case 1:
			idx = 1<<63 - 1 - uint64(rng.IntN(3))
		case 2:
			idx = uint64(1)<<uint(rng.IntN(63)) + uint64(rng.IntN(2))
		default:
			idx = rng.Uint64() >> 1
		}
		h := uint16(rng.IntN(64))
		var key [10]byte
		for i := 0; i < 8; i++ {
			key[i] = byte(idx >> (56 - 8*uint(i)))
		}
		key[8], key[9] = byte(h>>8), byte(h)
		val := sha([]byte(fmt.Sprint(idx, h)))
		ap[key] = val
		want[key] = val
	}
	b, _ := json.Marshal(ap.Serialize())
	var ser map[string]hashing.Digest
	json.Unmarshal(b, &ser)
	back := history.ParseAuditPath(ser)
	if len(back) != len(want) {
		r.Fail("round-trip", "synthetic audit path of %d entries has %d after Serialize/JSON/ParseAuditPath", len(want), len(back))
	}
	for k, v := range want {
		if !bytes.Equal(back[k], v) {
			r.Fail("round-trip", "position key %x (index up to 2^63-1) was lost or altered by Serialize/ParseAuditPath", k)
		}
	}
	for t := 0; t < 20; t++ {
		a, b := rng.Uint64(), rng.Uint64()
		if x, y, err := consensus.SimFsmStateCodec(a, b); err != nil || x != a || y != b {
			r.Fail("round-trip", "fsmState{%d,%d} decodes to {%d,%d} (err=%v)", a, b, x, y, err)
		}
		if x, y, err := consensus.SimVersionMetadataCodec(a, b); err != nil || x != a || y != b {
			r.Fail("round-trip", "VersionMetadata{%d,%d} decodes to {%d,%d} (err=%v)", a, b, x, y, err)
		}
		if x, y, err := consensus.SimSnapshotCodec(a, b); err != nil || x != a || y != b {
			r.Fail("round-trip", "fsmSnapshot{%d,%d} decodes to {%d,%d} (err=%v)", a, b, x, y, err)
		}
	}
	// single-element and empty bulks
	for _, m := range []int{0, 1} {
		ds := make([]hashing.Digest, m)
		for x := range ds {
			ds[x] = sha([]byte("x"))
		}
		got, ok, err := consensus.SimDecodeAdd(consensus.SimEncodeAdd(ds))
		if !ok || err != nil || len(got) != m {
			r.Fail("round-trip", "add command of %d digests decodes to %d (ok=%v err=%v)", m, len(got), ok, err)
		}
	}
	r.Count("oracle.synthetic_round_trips")
}
