package qedsim

// World A profiles and property-specific oracles for C04, C05, C06, C09.

import (
	"bytes"
	"encoding/binary"
	"fmt"
	"io"
	"os"

	"github.com/bbva/qed/balloon"
	"github.com/bbva/qed/balloon/history"
	"github.com/bbva/qed/consensus"
	"github.com/bbva/qed/crypto/hashing"
	"github.com/bbva/qed/storage"
	"github.com/bbva/qed/storage/bplus"
	"github.com/bbva/qed/storage/rocks"
	"github.com/hashicorp/raft"
)

var profC04 = &profile{
	nodes: []int{1, 1, 3}, steps: [2]int{14, 44}, stepsThor: [2]int{60, 220},
	w:          map[string]int{"add": 40, "rep": 10, "apply": 10, "stop": 5, "start": 6, "elect": 3, "snap": 2, "lag": 1, "agree": 3},
	pumps:      []string{"sync", "sync", "minimal"},
	digestKind: []int{0, 0, 1, 1, 1, 2},
	trailing:   []int{0, 1, 2},
	stopModes:  []string{"clean", "crash"},
}

var profC05 = &profile{
	nodes: []int{1, 3, 3}, steps: [2]int{14, 44}, stepsThor: [2]int{60, 200},
	w:          map[string]int{"add": 34, "rep": 10, "apply": 10, "stop": 5, "start": 6, "elect": 6, "arm": 6, "snap": 2, "lag": 1, "qver": 6},
	pumps:      []string{"sync", "sync", "minimal", "lost", "lostack"},
	digestKind: []int{0, 0, 0, 1, 2},
	trailing:   []int{0, 1, 2},
	stopModes:  []string{"clean", "crash"},
	armPoints:  []string{"mutate.before", "mutate.after", "mutate.err.before", "mutate.err.after"},
}

var profC06 = &profile{
	nodes: []int{3}, steps: [2]int{16, 44}, stepsThor: [2]int{60, 200},
	w:          map[string]int{"add": 30, "rep": 14, "apply": 14, "stop": 6, "start": 7, "elect": 6, "join": 1, "agree": 8, "snap": 1},
	pumps:      []string{"sync", "minimal", "minimal"},
	digestKind: []int{0, 0, 1, 2},
	trailing:   []int{2, 4, 8},
	stopModes:  []string{"clean", "crash"},
}

var profC09 = &profile{
	nodes: []int{3}, steps: [2]int{14, 40}, stepsThor: [2]int{50, 160},
	w:          map[string]int{"add": 26, "rep": 8, "apply": 8, "stop": 4, "start": 6, "elect": 4, "snap": 8, "lag": 6, "laginst": 8, "inst": 6, "join": 3, "agree": 6, "gapfetch": 3},
	pumps:      []string{"sync", "sync", "minimal"},
	digestKind: []int{0, 0, 1, 2},
	trailing:   []int{0, 0, 1, 2},
	stopModes:  []string{"clean", "crash"},
	instFaults: []string{"", "stream-fail", "stream-fail", "crash-mid-load", "leader-stop", "crash-after-persist"},
}

func init() {
	register(&Property{ID: "C04", Gen: func(seed uint64, tier string) *Tape {
		t := genWorldA(seed, tier, "C04", profC04)
		rng := NewRng(seed, "C04/knobs")
		t.Cfg["lru"] = int64([]int{1, 2, 3, 7, 50, 300}[rng.IntN(6)])
		return t
	}, Exec: execC04, Simplify: simplifyWorldA})
	register(&Property{ID: "C05", Gen: func(seed uint64, tier string) *Tape { return genWorldA(seed, tier, "C05", profC05) },
		Exec: func(r *Run) {
			w := execWorldA(r, extraC05)
			for _, nd := range w.e.nodes {
				w.checkNodeVersion(nd)
			}
		}, Simplify: simplifyWorldA})
	register(&Property{ID: "C06", Gen: func(seed uint64, tier string) *Tape { return genWorldA(seed, tier, "C06", profC06) },
		Exec: func(r *Run) {
			w := execWorldA(r, extraC06)
			w.crossReplicaProofs()
		}, Simplify: simplifyWorldA})
	register(&Property{ID: "C09", Gen: func(seed uint64, tier string) *Tape { return genWorldA(seed, tier, "C09", profC09) },
		Exec: func(r *Run) {
			w := execWorldA(r, extraC09)
			w.crossReplicaProofs()
		}, Simplify: simplifyWorldA})
}

// ---- C05 ----------------------------------------------------------------------

func extraC05(w *worldA, s Step) bool {
	if s.Op == "qver" {
		nd := w.node(s.Node)
		if nd != nil && nd.up {
			w.checkNodeVersion(nd)
		}
		return true
	}
	return false
}

// checkNodeVersion: on any running node the number of events held, the current
// version reported by proofs and the highest history leaf in the store agree
// with the number of accepted events it has applied.
func (w *worldA) checkNodeVersion(nd *simNode) {
	if !nd.up {
		return
	}
	r := w.r
	n := nd.rn.SimBalloonVersion()
	want := w.e.eventsThrough(nd.lastApplied)
	if n < want {
		r.Fail("current-version", "node %s applied the log up to entry %d (%d accepted events) but holds %d", nd.name, nd.lastApplied, want, n)
	}
	// a restarted node may durably hold more than raft has re-applied so far, never something else
	if n > w.e.rlog.Len() {
		r.Fail("current-version", "node %s holds %d events, the committed log has only %d", nd.name, n, w.e.rlog.Len())
	}
	kv, err := nd.raw.GetLast(storage.HistoryTable)
	if n == 0 {
		if err != storage.ErrKeyNotFound {
			r.Fail("current-version", "node %s holds no events but its history table is not empty", nd.name)
		}
		return
	}
	if err != nil {
		r.Fail("current-version", "node %s holds %d events but its history table has no last key: %v", nd.name, n, err)
	}
	if len(kv.Key) < 8 || binary.BigEndian.Uint64(kv.Key[:8]) != n-1 {
		r.Fail("current-version", "node %s holds %d events but the highest history leaf in its store is %x", nd.name, n, kv.Key)
	}
	_, sv := nd.rn.SimState()
	if sv != n-1 {
		r.Fail("current-version", "node %s holds %d events but its persisted FSM state says version %d", nd.name, n, sv)
	}
	// the version proofs report
	d := w.e.rlog.Digests[n-1]
	var mp *balloon.MembershipProof
	cp := Capture(func() { mp, err = nd.rn.QueryDigestMembership(d) })
	if cp != nil {
		if cp.Harness {
			r.Bug("%s\n%s", cp, cp.Stack)
		}
		r.Fail("current-version", "node %s: membership query for its newest event failed internally: %s", nd.name, cp)
	}
	if err != nil {
		r.Fail("current-version", "node %s: membership query for its newest event failed: %v", nd.name, err)
	}
	if mp.CurrentVersion != n-1 {
		r.Fail("current-version", "node %s holds %d events but proofs report current version %d", nd.name, n, mp.CurrentVersion)
	}
	r.Count("oracle.version_checked")
}

// ---- C06 ----------------------------------------------------------------------

func extraC06(w *worldA, s Step) bool { return false }

// crossReplicaProofs: proofs served by each replica verify against the
// snapshots the leader returned (= reference digests, checked at issue time).
func (w *worldA) crossReplicaProofs() {
	for _, nd := range w.e.nodes {
		w.queryMembership(Step{Op: "qmem", Node: nd.id, K: 10})
		w.queryConsistency(Step{Op: "qinc", Node: nd.id, K: 8})
		w.checkNodeVersion(nd)
	}
}

// ---- C09 ----------------------------------------------------------------------

func extraC09(w *worldA, s Step) bool {
	if s.Op == "gapfetch" {
		w.gapFetch(s)
		return true
	}
	return false
}

// gapFetch: a follower at a real, consistent (sequence number, version) position
// asks the leader for a range that starts further ahead (its sequence numbers
// "ran ahead"). Whatever comes back, loaded on top of that position, must not
// leave a version gap: the transfer must be refused, or what it carries must
// start right after the position's version.
func (w *worldA) gapFetch(s Step) {
	e := w.e
	r := w.r
	l := w.node(-1)
	if l == nil || !l.up || l.rn.SimBalloonVersion() < 3 || l.seqAfter == nil {
		return
	}
	n := l.rn.SimBalloonVersion()
	// event counts at which the leader itself finished an apply, in order
	var marks []uint64
	for k := range l.seqAfter {
		if k <= n {
			marks = append(marks, k)
		}
	}
	sortU64(marks)
	if len(marks) < 3 {
		return
	}
	rng := r.StepRng("gapfetch")
	fi := rng.IntN(len(marks) - 2)           // the follower's position: marks[fi] events
	gi := fi + 1 + rng.IntN(len(marks)-fi-2) // it asks from here on: one or more batches are skipped
	nf := marks[fi]
	// (1) a scratch follower brought to position nf by a regular transfer
	dir, err := os.MkdirTemp(e.baseDir, "gap")
	if err != nil {
		r.Bug("mkdtemp: %v", err)
	}
	defer os.RemoveAll(dir)
	st, err := rocks.NewRocksDBStore(dir, 0)
	if err != nil {
		r.Bug("scratch store: %v", err)
	}
	defer st.Close()
	fetch := func(start, end, lastApplied uint64) ([][]byte, error) {
		var chunks [][]byte
		srv := &consensus.SimServerStream{OnSend: func(c []byte) error { chunks = append(chunks, c); return nil }}
		var ferr error
		cp := Capture(func() {
			ferr = l.rn.FetchSnapshot(&consensus.FetchSnapshotRequest{StartSeqNum: start, EndSeqNum: end, LastAppliedVersion: lastApplied}, srv)
		})
		if cp != nil {
			e.failPanic(l, "FetchSnapshot (server side)", cp)
		}
		return chunks, ferr
	}
	load := func(chunks [][]byte) error {
		var buf bytes.Buffer
		for _, c := range chunks {
			buf.Write(c)
		}
		return st.LoadSnapshot(io.NopCloser(&buf))
	}
	if nf > 0 {
		chunks, ferr := fetch(0, l.seqAfter[nf], 0)
		if ferr != nil || load(chunks) != nil {
			return // the regular transfer itself is judged by the other oracles
		}
	}
	lastApplied := uint64(0)
	if nf > 0 {
		lastApplied = nf - 1
	}
	// (2) the crafted request: sequence numbers that "ran ahead" of the position
	chunks, ferr := fetch(l.seqAfter[marks[gi]], l.raw.LastWALSequenceNumber(), lastApplied)
	r.Logf("GAPFETCH follower at %d events asks from the batch after %d events (skipping %d events): %d chunks, err=%v", nf, marks[gi], marks[gi]-nf, len(chunks), ferr)
	r.Count("fault.gap_request")
	if ferr != nil {
		r.Count("probe.gap_refused")
		return
	}
	if len(chunks) == 0 {
		return
	}
	if err := load(chunks); err != nil {
		return
	}
	// (3) whatever was accepted must not have left a hole: history leaves dense from 0
	have := map[uint64]bool{}
	max := uint64(0)
	for _, kv := range readAll(st, storage.HistoryTable, 512) {
		if len(kv.Key) == 10 && kv.Key[8] == 0 && kv.Key[9] == 0 {
			v := binary.BigEndian.Uint64(kv.Key[:8])
			have[v] = true
			if v > max {
				max = v
			}
		}
	}
	for v := uint64(0); v <= max; v++ {
		if !have[v] {
			r.Fail("gap-refused", "a follower holding %d events asked for the batches after sequence number %d (skipping %d events); the leader served the transfer and the follower's log now lacks version %d below its highest version %d", nf, l.seqAfter[marks[gi]], marks[gi]-nf, v, max)
		}
	}
	r.Count("probe.gap_request_accepted_without_hole")
}

// ---- C04 ----------------------------------------------------------------------

func execC04(r *Run) {
	w := execWorldA(r, nil)
	if w.e.rlog.Len() == 0 {
		return
	}
	r.cur = len(r.Tape.Steps)
	// distinct prefix of the committed sequence
	var seq [][]byte
	seen := map[string]bool{}
	for _, d := range w.e.rlog.Digests {
		if seen[string(d)] {
			break
		}
		seen[string(d)] = true
		seq = append(seq, d)
	}
	rng := r.NamedRng("c04")
	// (1) grouping independence: replay the same sequence with a different
	// partition into a balloon over the B+tree store and over a fresh RocksDB
	// store; every digest must equal the reference's (which the cluster's did).
	dir, err := os.MkdirTemp(w.e.baseDir, "twin")
	if err != nil {
		r.Bug("mkdtemp: %v", err)
	}
	rk, err := rocks.NewRocksDBStore(dir, 0)
	if err != nil {
		r.Bug("twin store: %v", err)
	}
	defer rk.Close()
	backends := []struct {
		name string
		st   storage.Store
	}{{"bplus", bplus.NewBPlusTreeStore()}, {"rocks", rk}}
	for _, be := range backends {
		b, err := balloon.NewBalloonWithLogger(be.st, hashing.NewSha256Hasher, w.e.logger)
		if err != nil {
			r.Fail("canonical-twin", "cannot build a balloon over %s: %v", be.name, err)
		}
		ref := NewRLog()
		for pos := 0; pos < len(seq); {
			k := 1
			if rng.IntN(2) == 0 {
				k = 1 + rng.IntN(9)
			}
			if pos+k > len(seq) {
				k = len(seq) - pos
			}
			chunk := seq[pos : pos+k]
			hd := make([]hashing.Digest, k)
			for i := range chunk {
				hd[i] = chunk[i]
			}
			var snaps []*balloon.Snapshot
			var muts []*storage.Mutation
			var aerr error
			cp := Capture(func() {
				if k == 1 && rng.IntN(2) == 0 {
					var s1 *balloon.Snapshot
					s1, muts, aerr = b.Add(hd[0])
					snaps = []*balloon.Snapshot{s1}
				} else {
					snaps, muts, aerr = b.AddBulk(hd)
				}
			})
			if cp != nil {
				if cp.Harness {
					r.Bug("%s\n%s", cp, cp.Stack)
				}
				r.Fail("canonical-twin", "%s twin: insertion of %d events at version %d failed internally: %s", be.name, k, pos, cp)
			}
			if aerr != nil {
				r.Fail("canonical-twin", "%s twin: insertion failed: %v", be.name, aerr)
			}
			if err := be.st.Mutate(muts, []byte("m")); err != nil {
				r.Fail("canonical-twin", "%s twin: Mutate failed: %v", be.name, err)
			}
			base := ref.Append(chunk)
			for i, sn := range snaps {
				v := base + uint64(i)
				if sn.Version != v || !bytes.Equal(sn.EventDigest, chunk[i]) {
					r.Fail("canonical-twin", "%s twin: snapshot %d carries version %d / wrong event digest", be.name, v, sn.Version)
				}
				if !bytes.Equal(sn.HistoryDigest, ref.Hist.Root(v)) {
					r.Fail("canonical-history", "%s twin (other grouping): history digest of version %d differs from the reference tree", be.name, v)
				}
				if !bytes.Equal(sn.HyperDigest, ref.HyperAt[base+uint64(k)-1]) {
					r.Fail("canonical-hyper", "%s twin (other grouping): hyper digest after version %d differs from the reference tree", be.name, base+uint64(k)-1)
				}
				if first, ok := w.e.issued[v]; ok && !bytes.Equal(first.HistoryDigest, sn.HistoryDigest) {
					r.Fail("grouping-independence", "history digest of version %d depends on how events were grouped (%s twin vs cluster)", v, be.name)
				}
			}
			pos += k
			r.Count("oracle.twin_call_checked")
		}
		// same final hyper digest as the cluster issued at the same version
		last := uint64(len(seq)) - 1
		if first, ok := w.e.issued[last]; ok && w.e.rlog.CallEnd[last] == last && !w.e.rlog.Repeated() {
			if !bytes.Equal(first.HyperDigest, ref.HyperAt[last]) {
				r.Fail("grouping-independence", "hyper digest at version %d depends on how events were grouped (%s twin vs cluster)", last, be.name)
			}
		}
		b.Close()
	}
	// (2) history cache capacity: the same sequence through a history tree with a
	// tiny LRU, so that eviction and read-through from the store happen.
	lru := uint16(r.Cfg("lru"))
	if lru == 0 {
		lru = 1
	}
	st := bplus.NewBPlusTreeStore()
	ht := history.NewHistoryTreeWithLogger(hashing.NewSha256Hasher, st, lru, w.e.logger)
	ref := NewRHist()
	for v, d := range seq {
		ref.Append(d)
		var hd hashing.Digest
		var muts []*storage.Mutation
		var herr error
		cp := Capture(func() { hd, muts, herr = ht.Add(d, uint64(v)) })
		if cp != nil {
			if cp.Harness {
				r.Bug("%s\n%s", cp, cp.Stack)
			}
			r.Fail("cache-independence", "history tree with cache capacity %d failed internally at version %d: %s", lru, v, cp)
		}
		if herr != nil {
			r.Fail("cache-independence", "history tree with cache capacity %d failed at version %d: %v", lru, v, herr)
		}
		st.Mutate(muts, nil)
		if !bytes.Equal(hd, ref.Root(uint64(v))) {
			r.Fail("cache-independence", "history digest of version %d computed with cache capacity %d differs from the reference tree", v, lru)
		}
	}
	if len(seq) > int(lru) {
		r.Count("probe.lru_smaller_than_log")
	}
	ht.Close()
	r.Distinct(fmt.Sprintf("c04:%d:%d", len(seq), lru))
}

var _ = raft.ErrNotLeader
