package qedsim

import (
	"encoding/json"
	"flag"
	"fmt"
	"os"
	"testing"
	"time"
)

var (
	fProp     = flag.String("prop", "", "property id")
	fSeed0    = flag.Uint64("seed0", 1, "first seed")
	fSeeds    = flag.Int("seeds", 1, "number of seeds")
	fTier     = flag.String("tier", "quick", "quick|thorough")
	fOut      = flag.String("out", "", "JSONL result file")
	fReplay   = flag.String("replay", "", "replay file to execute")
	fReplays  = flag.String("replays", "/verif/replays", "directory for replay files")
	fFindings = flag.String("findings", "/verif/known_findings.json", "known findings file")
	fVerbose  = flag.Bool("verbose", false, "print the step log")
	fBudget   = flag.Duration("budget", 0, "stop starting new seeds after this wall time")
	fMinTries = flag.Int("mintries", 400, "minimiser budget (executions)")
	fDump     = flag.Bool("dump", false, "print the generated tape and exit")
	fNoMin    = flag.Bool("nomin", false, "do not minimise")
	fMaxRSS   = flag.Int("maxrss", 2000, "stop starting new seeds when resident memory exceeds this many MB (the driver re-queues the rest)")
)

// TestSim is the single entry point of the qedsim binary.
func TestSim(t *testing.T) {
	if *fProp == "" && *fReplay == "" {
		t.Skip("no -prop given")
	}
	if err := loadFindings(*fFindings); err != nil {
		fmt.Fprintf(os.Stderr, "qedsim: cannot load findings: %v\n", err)
		os.Exit(2)
	}
	var out *os.File
	if *fOut != "" {
		var err error
		out, err = os.Create(*fOut)
		if err != nil {
			fmt.Fprintf(os.Stderr, "qedsim: %v\n", err)
			os.Exit(2)
		}
		defer out.Close()
	}
	emit := func(res *Result) {
		b, _ := json.Marshal(res)
		if out != nil {
			out.Write(append(b, '\n'))
		} else {
			fmt.Println(string(b))
		}
	}
	runTape := func(p *Property, tape *Tape, verbose bool) *Result {
		if p.Bubble {
			return executeInBubble(t, p, tape, verbose)
		}
		return execute(p, tape, verbose)
	}

	if *fReplay != "" {
		tape, err := readReplay(*fReplay)
		if err != nil {
			fmt.Fprintf(os.Stderr, "qedsim: %v\n", err)
			os.Exit(2)
		}
		p := registry[tape.Prop]
		if p == nil {
			fmt.Fprintf(os.Stderr, "qedsim: unknown property %q\n", tape.Prop)
			os.Exit(2)
		}
		res := runTape(p, tape, *fVerbose)
		emit(res)
		if res.HarnessErr != "" {
			fmt.Fprintf(os.Stderr, "qedsim: harness error: %s\n", res.HarnessErr)
			os.Exit(2)
		}
		if res.Violation != nil {
			fmt.Printf("REPLAY-VIOLATION property=%s oracle=%s digest=%s msg=%s\n", res.Violation.Prop, res.Violation.Oracle, res.Digest, res.Violation.Msg)
			if tape.Violation != nil && (tape.Violation.Class() != res.Violation.Class() || tape.Digest != res.Digest) {
				fmt.Printf("REPLAY-MISMATCH recorded=%s/%s got=%s/%s\n", tape.Violation.Class(), tape.Digest, res.Violation.Class(), res.Digest)
				os.Exit(2)
			}
			os.Exit(1)
		}
		fmt.Printf("REPLAY-CLEAN digest=%s\n", res.Digest)
		if tape.Violation != nil {
			os.Exit(3) // recorded a violation but it did not reproduce
		}
		return
	}

	p := registry[*fProp]
	if p == nil {
		fmt.Fprintf(os.Stderr, "qedsim: unknown property %q\n", *fProp)
		os.Exit(2)
	}
	start := time.Now()
	for i := 0; i < *fSeeds; i++ {
		if *fBudget > 0 && time.Since(start) > *fBudget {
			break
		}
		if i > 0 && rssMB() > *fMaxRSS {
			break
		}
		seed := *fSeed0 + uint64(i)
		tape := p.Gen(seed, *fTier)
		tape.Prop, tape.Seed, tape.Tier, tape.Harness = p.ID, seed, *fTier, HarnessVersion
		if *fDump {
			b, _ := json.MarshalIndent(tape, "", " ")
			fmt.Println(string(b))
			continue
		}
		res := runTape(p, tape, *fVerbose)
		if res.HarnessErr != "" {
			emit(res)
			fmt.Fprintf(os.Stderr, "qedsim: harness error (seed %d): %s\n", seed, res.HarnessErr)
			os.Exit(2)
		}
		if res.Violation != nil {
			if f := matchFinding(res.Violation); f != nil {
				res.Known = f.ID
				res.Violation = nil
				emit(res)
				continue
			}
			orig := res.Violation
			min := tape
			if !*fNoMin {
				min = minimise(p, tape, orig.Class(), *fMinTries, func(c *Tape) *Result { return runTape(p, c, false) })
			}
			mres := runTape(p, min, false)
			if mres.Violation == nil || mres.Violation.Class() != orig.Class() {
				// minimised tape is not stable: fall back to the original tape
				min = tape
				mres = runTape(p, min, false)
			}
			if mres.Violation == nil {
				res.HarnessErr = fmt.Sprintf("violation %s did not recur when the same tape was executed again (nondeterminism in the harness)", orig.Class())
				emit(res)
				fmt.Fprintf(os.Stderr, "qedsim: %s\n", res.HarnessErr)
				os.Exit(2)
			}
			path, err := writeReplay(*fReplays, min, mres)
			if err != nil {
				fmt.Fprintf(os.Stderr, "qedsim: %v\n", err)
				os.Exit(2)
			}
			res.Violation = mres.Violation
			res.Digest = mres.Digest
			res.Replay = path
			res.MinSteps = len(min.Steps)
			emit(res)
			// one violation ends the worker: the driver reports it
			return
		}
		emit(res)
	}
}
