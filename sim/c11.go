package qedsim

// C11 — no client request can crash or wedge a server. World A with a hostile
// client: seeded requests against the real apihttp and mgmthttp muxes of the
// leader and of followers, interleaved with normal traffic and restarts. Every
// command that becomes committed is applied on every replica, again after all
// nodes are crash-restarted and the whole log is replayed.

import (
	"encoding/base64"
	"encoding/json"
	"fmt"
	"math/rand/v2"
	"net/http"
	"strings"
)

var profC11 = &profile{
	nodes: []int{1, 3, 3}, steps: [2]int{14, 40}, stepsThor: [2]int{40, 140},
	w:          map[string]int{"add": 16, "rep": 6, "apply": 8, "hostile": 50, "stop": 3, "start": 4, "elect": 2, "snap": 1, "service": 5},
	pumps:      []string{"sync", "sync", "minimal"},
	digestKind: []int{0, 0, 2},
	trailing:   []int{1, 2, 4},
	stopModes:  []string{"clean", "crash"},
}

func init() {
	register(&Property{ID: "C11", Gen: func(seed uint64, tier string) *Tape { return genWorldA(seed, tier, "C11", profC11) },
		Exec: execC11, Simplify: simplifyWorldA, PanicOracle: "server-survives"})
}

var hostilePaths = []string{"/events", "/events/bulk", "/proofs/membership", "/proofs/digest-membership", "/proofs/incremental",
	"/info", "/info/shards", "/healthcheck", "/", "/events/", "/proofs", "/nope"}
var hostileMgmtPaths = []string{"/backup", "/backups", "/backup?backupID=1", "/backup?backupID=", "/backup?backupID=abc", "/backup?backupID=99999999999999999999",
	"/backup?backupID=-1", "/backup?other=1", "/backups?x=1", "/nope"}
var hostileMethods = []string{"POST", "POST", "POST", "GET", "HEAD", "PUT", "DELETE", "PATCH"}

func b64(n int, fill byte) string {
	b := make([]byte, n)
	for i := range b {
		b[i] = fill + byte(i)
	}
	return base64.StdEncoding.EncodeToString(b)
}

// hostileBody draws a request body for a path from the menu.
func hostileBody(rng *rand.Rand, path string, w *worldA) []byte {
	nums := []string{"0", "1", "2", "9223372036854775807", "9223372036854775808", "18446744073709551615", "18446744073709551616", "-1", "1.5", "1e30", "\"7\"", "null", "true", "[]", "{}"}
	num := func() string { return nums[rng.IntN(len(nums))] }
	known := "AAAA"
	var knownDigest string
	if w.e.rlog.Len() > 0 {
		d := w.e.rlog.Digests[rng.IntN(int(w.e.rlog.Len()))]
		knownDigest = base64.StdEncoding.EncodeToString(d)
		if ev, ok := w.events[string(d)]; ok {
			known = base64.StdEncoding.EncodeToString(ev)
		}
	}
	generic := []string{"", "null", "{}", "[]", "0", "\"x\"", "{", "{\"Event\":", "[[[[[[[[[[[[[[[[[[[[[[[[[[[[[[[[", strings.Repeat("{\"a\":", 200) + "1" + strings.Repeat("}", 200),
		"\xff\xfe\x00", "{\"Event\":\"!!!not-base64!!!\"}", "{\"Events\":\"AAAA\"}", "{\"Events\":{}}"}
	if rng.IntN(4) == 0 {
		return []byte(generic[rng.IntN(len(generic))])
	}
	switch {
	case strings.HasPrefix(path, "/events/bulk"):
		opts := []string{"{\"Events\":[]}", "{\"Events\":null}", "{}", "{\"Events\":[\"\"]}", "{\"Events\":[\"\",\"\"]}", "{\"Events\":[null]}", "{\"Events\":[\"" + b64(1, 1) + "\"]}",
			"{\"Events\":[\"" + known + "\",\"" + known + "\"]}", "{\"Events\":[\"" + b64(70000, 3) + "\"]}", "{\"Events\":[\"" + b64(3, 9) + "\"],\"Extra\":1}", "{\"events\":[]}",
			fmt.Sprintf("{\"Events\":[\"%s\",\"%s\",\"%s\"]}", b64(2, byte(rng.IntN(200))), b64(4, byte(rng.IntN(200))), b64(5, byte(rng.IntN(200))))}
		return []byte(opts[rng.IntN(len(opts))])
	case strings.HasPrefix(path, "/events"):
		opts := []string{"{\"Event\":\"\"}", "{\"Event\":null}", "{}", "{\"Event\":\"" + known + "\"}", "{\"Event\":\"" + b64(100000, 1) + "\"}", "{\"Event\":[1,2]}", "{\"Event\":\"" + b64(3, byte(rng.IntN(250))) + "\",\"x\":{}}"}
		return []byte(opts[rng.IntN(len(opts))])
	case strings.HasPrefix(path, "/proofs/membership"):
		if w.e.rlog.Len() > 0 && rng.IntN(2) == 0 {
			// well-formed requests at the version boundaries of a known event:
			// before its insertion, at it, at/after the current version
			var ks []string
			for k := range w.events {
				ks = append(ks, k)
			}
			sortStrings(ks)
			if len(ks) > 0 {
				d := ks[rng.IntN(len(ks))]
				v, _ := w.e.rlog.FirstVersion([]byte(d))
				cur := w.e.rlog.Len() - 1
				vs := []uint64{0, v, cur, cur + 1, cur + 1000}
				if v > 0 {
					vs = append(vs, v-1, v-1, uint64(rng.IntN(int(v))))
				}
				key := base64.StdEncoding.EncodeToString(w.events[d])
				if rng.IntN(4) == 0 {
					return []byte(fmt.Sprintf("{\"Key\":\"%s\"}", key))
				}
				return []byte(fmt.Sprintf("{\"Key\":\"%s\",\"Version\":%d}", key, vs[rng.IntN(len(vs))]))
			}
		}
		return []byte(fmt.Sprintf("{\"Key\":%s,\"Version\":%s}", []string{"\"" + known + "\"", "\"\"", "null", "\"" + b64(200, 7) + "\"", "5"}[rng.IntN(5)], num()))
	case strings.HasPrefix(path, "/proofs/digest-membership"):
		if n := w.e.rlog.Len(); n > 0 && rng.IntN(3) == 0 {
			v := uint64(rng.IntN(int(n)))
			d := base64.StdEncoding.EncodeToString(w.e.rlog.Digests[v])
			vs := []uint64{0, v, n - 1, n, n + 7}
			if v > 0 {
				vs = append(vs, v-1, v-1)
			}
			return []byte(fmt.Sprintf("{\"KeyDigest\":\"%s\",\"Version\":%d}", d, vs[rng.IntN(len(vs))]))
		}
		lens := []int{0, 1, 16, 31, 32, 33, 48, 63, 64, 65, 200}
		dg := "\"" + b64(lens[rng.IntN(len(lens))], byte(rng.IntN(250))) + "\""
		if rng.IntN(3) == 0 && knownDigest != "" {
			dg = "\"" + knownDigest + "\""
		}
		if rng.IntN(8) == 0 {
			dg = []string{"null", "5", "\"@@@\"", "[]"}[rng.IntN(4)]
		}
		if rng.IntN(4) == 0 {
			return []byte(fmt.Sprintf("{\"KeyDigest\":%s}", dg))
		}
		return []byte(fmt.Sprintf("{\"KeyDigest\":%s,\"Version\":%s}", dg, num()))
	case strings.HasPrefix(path, "/proofs/incremental"):
		if n := w.e.rlog.Len(); n > 0 && rng.IntN(3) == 0 {
			c := n - 1
			pairs := [][2]uint64{{0, c}, {c, c}, {c, 0}, {0, c + 1}, {c + 1, c + 1}, {c, c + 1}, {uint64(rng.IntN(int(n))), uint64(rng.IntN(int(n)))}}
			p := pairs[rng.IntN(len(pairs))]
			return []byte(fmt.Sprintf("{\"Start\":%d,\"End\":%d}", p[0], p[1]))
		}
		return []byte(fmt.Sprintf("{\"Start\":%s,\"End\":%s}", num(), num()))
	}
	return []byte(generic[rng.IntN(len(generic))])
}

func (w *worldA) hostile(s Step) {
	nd := w.node(s.Node)
	if nd == nil || !nd.up {
		return
	}
	r := w.r
	rng := r.StepRng("hostile")
	mgmt := rng.IntN(5) == 0
	var path, method string
	var body []byte
	method = hostileMethods[rng.IntN(len(hostileMethods))]
	var h http.Handler
	if mgmt {
		path = hostileMgmtPaths[rng.IntN(len(hostileMgmtPaths))]
		h = nd.mgmtMux()
		if rng.IntN(2) == 0 {
			method = []string{"DELETE", "POST", "GET"}[rng.IntN(3)]
		}
	} else {
		path = hostilePaths[rng.IntN(len(hostilePaths))]
		h = nd.apiMux()
		body = hostileBody(rng, path, w)
		if rng.IntN(6) == 0 {
			body = nil
		}
	}
	w.e.pumpKind = "sync"
	defer func() { w.e.pumpKind = "" }()
	before := w.e.maxCommitted
	rec, cp := serve(h, method, path, body)
	what := fmt.Sprintf("%s %s %s body=%q on %s", map[bool]string{true: "mgmt", false: "api"}[mgmt], method, path, trunc(string(body), 80), nd.name)
	r.Logf("HOSTILE %s -> %d", what, rec.Code)
	r.Count("fault.hostile_requests")
	if cp != nil {
		if cp.Harness {
			r.Bug("%s\n%s", cp, cp.Stack)
		}
		if _, ok := cp.Value.(violationPanic); ok {
			panic(cp.Value)
		}
		r.Fail("well-formed-response", "%s: the handler panicked (a dropped connection for the client): %s", what, cp)
	}
	if rec.Code < 100 || rec.Code > 599 {
		r.Fail("well-formed-response", "%s: status code %d", what, rec.Code)
	}
	if nd.up {
		for len(nd.ch) > 0 {
			<-nd.ch
		}
	}
	if w.e.maxCommitted > before {
		r.Count("probe.hostile_request_committed_an_entry")
		// it must be applicable everywhere, now
		for _, x := range w.e.nodes {
			if x.up && x.id != w.e.leader {
				w.e.replicate(x, 64, "", 0)
				w.e.replicate(x, 64, "", 0)
			}
			for w.e.applyOne(x) {
			}
		}
	}
	r.Distinct(fmt.Sprintf("hostile:%s:%s:%d:%d", method, path, len(body), rec.Code))
}

// serviceCheck: a valid add on the leader and verifying membership answers from
// every node.
func (w *worldA) serviceCheck(tag string) {
	l := w.node(-1)
	if l == nil || !l.up {
		return
	}
	// an insertion can only be accepted while a majority of the configured nodes
	// is running: a leader that lost its quorum rightly refuses (and steps down)
	upVoters := 0
	for _, v := range w.e.nodes {
		if v.inConfig && v.up {
			upVoters++
		}
	}
	if upVoters < w.e.configSize()/2+1 {
		w.r.Count("probe.service_check_skipped_no_quorum")
		return
	}
	// accepted = acknowledged with a snapshot (the committed log may grow by more
	// than one here: an earlier insertion that lost its leader before committing
	// stays in the log and commits under the next leader)
	ackedBefore := len(w.acked)
	w.doAdd(Step{Op: "add", K: 1, Kind: "http", Data: "sync"})
	if len(w.acked) != ackedBefore+1 {
		w.r.Fail("service-continues", "%s: a valid insertion through the leader's HTTP API was not accepted", tag)
	}
	for _, nd := range w.e.nodes {
		if nd.up && nd.id != w.e.leader {
			w.e.replicate(nd, 64, "", 0)
			w.e.replicate(nd, 64, "", 0)
			for w.e.applyOne(nd) {
			}
		}
	}
	for _, nd := range w.e.nodes {
		w.queryMembership(Step{Op: "qmem", Node: nd.id, K: 4})
		// through the HTTP handler as well
		if nd.up && w.e.rlog.Len() > 0 {
			d := w.e.rlog.Digests[w.e.rlog.Len()-1]
			body, _ := json.Marshal(map[string]interface{}{"KeyDigest": d})
			rec, cp := serve(nd.apiMux(), "POST", "/proofs/digest-membership", body)
			if cp != nil || rec.Code != 200 {
				w.r.Fail("service-continues", "%s: a valid digest-membership query on %s answered %d (panic: %v)", tag, nd.name, rec.Code, cp != nil)
			}
		}
	}
	w.r.Count("oracle.service_checked")
}

func execC11(r *Run) {
	w := execWorldA(r, func(w *worldA, s Step) bool {
		switch s.Op {
		case "hostile":
			w.hostile(s)
			return true
		case "service":
			w.serviceCheck("during the run")
			return true
		}
		return false
	})
	r.cur = len(r.Tape.Steps)
	w.heal()
	w.serviceCheck("after the hostile traffic")
	// every node is killed and replays the whole log
	for _, nd := range w.e.nodes {
		w.e.stopNode(nd, "crash")
	}
	for _, nd := range w.e.nodes {
		w.e.startNode(nd)
	}
	w.heal()
	w.serviceCheck("after restart and replay of the log")
	w.checkAgreement("replicas-agree")
}
