package qedsim

// World A: N real RaftNode FSMs over real RocksDB stores and real raft logs,
// driven by the consensus environment (env.go). This file holds the shared
// tape interpreter, the workload generator and the oracles that every World A
// property uses.

import (
	"bytes"
	"crypto/sha256"
	"encoding/hex"
	"encoding/json"
	"fmt"
	"math/rand/v2"
	"sort"

	"github.com/bbva/qed/balloon"
	"github.com/bbva/qed/consensus"
	"github.com/bbva/qed/crypto/hashing"
	"github.com/bbva/qed/protocol"
	"github.com/bbva/qed/storage"
	"github.com/hashicorp/raft"
)

// profile = swarm weights of one World A property.
type profile struct {
	nodes      []int // choices for cluster size
	steps      [2]int
	stepsThor  [2]int
	w          map[string]int // step weights
	pumps      []string       // pump kinds for api adds
	digestKind []int          // 0 rand, 1 shared prefix, 2 repeat
	trailing   []int
	stopModes  []string
	instFaults []string
	armPoints  []string
}

type worldA struct {
	r       *Run
	e       *Env
	evCount int
	events  map[string][]byte // digest -> event bytes (for api adds)
	acked   map[uint64]*balloon.Snapshot
	unacked int
	ownerOf func(oracle string) string
	// per-apply bookkeeping
	preVersion uint64
}

func newWorldA(r *Run) *worldA {
	n := int(r.Cfg("nodes"))
	if n < 1 {
		n = 1
	}
	return newWorldAN(r, n)
}

func newWorldAN(r *Run, n int) *worldA {
	w := &worldA{r: r, events: map[string][]byte{}, acked: map[uint64]*balloon.Snapshot{}}
	w.e = newEnv(r, n)
	w.e.onApplied = w.checkApplied
	r.failNote = func() string {
		for _, nd := range w.e.nodes {
			if nd.tainted {
				return "[UNFINISHED-INSTALL: node " + nd.name + " restarted on a raft snapshot whose state transfer never completed] "
			}
		}
		return ""
	}
	for _, nd := range w.e.nodes {
		w.e.startNode(nd)
	}
	return w
}

// ---- generator --------------------------------------------------------------

func pick[T any](rng *rand.Rand, xs []T) T { return xs[rng.IntN(len(xs))] }

func genWorldA(seed uint64, tier string, prop string, prof *profile) *Tape {
	rng := NewRng(seed, prop)
	t := &Tape{Cfg: map[string]int64{}}
	n := pick(rng, prof.nodes)
	t.Cfg["nodes"] = int64(n)
	t.Cfg["trailing"] = int64(pick(rng, prof.trailing))
	lo, hi := prof.steps[0], prof.steps[1]
	if tier == "thorough" {
		lo, hi = prof.stepsThor[0], prof.stepsThor[1]
	}
	steps := lo + rng.IntN(hi-lo+1)
	// swarm: drop a random subset of the optional step kinds for this run
	w := map[string]int{}
	var kinds []string
	for k := range prof.w {
		kinds = append(kinds, k)
	}
	sort.Strings(kinds)
	total := 0
	for _, k := range kinds {
		wk := prof.w[k]
		if k != "add" && k != "rep" && k != "apply" && rng.IntN(4) == 0 {
			wk = 0
		}
		if n == 1 && (k == "rep" || k == "elect" || k == "inst" || k == "join") {
			wk = 0
		}
		w[k] = wk
		total += wk
	}
	t.Steps = append(t.Steps, Step{Op: "elect", Node: rng.IntN(n)})
	// A minority of runs starts with a log big enough to leave the sizes that
	// internal buffers and caches happen to have (1000-entry read chunks, the
	// 300-entry history LRU): correctness must not depend on staying below them.
	bigOdds := 14
	if tier == "thorough" {
		bigOdds = 6
	}
	if rng.IntN(bigOdds) == 0 {
		t.Steps = append(t.Steps, Step{Op: "bigadd", K: 1050 + rng.IntN(500)})
		if n > 1 {
			t.Steps = append(t.Steps, Step{Op: "rep", Node: rng.IntN(n), K: 64}, Step{Op: "apply", Node: rng.IntN(n), K: 64})
		}
	}
	// Directed openings for the state-transfer profile: rare conjunctions that a
	// uniform draw reaches once in ~60 tapes. Parameters stay seeded, and the
	// random part of the tape follows as usual.
	if len(prof.instFaults) > 0 && n >= 3 {
		switch rng.IntN(8) {
		case 0:
			// a log of 0-2 single events is compacted away, then a brand-new node
			// (and a returning empty one) has to be brought up from the snapshot
			t.Cfg["trailing"] = 0
			for k := rng.IntN(3); k > 0; k-- {
				t.Steps = append(t.Steps, Step{Op: "add", K: 1, Kind: "api", Data: "sync"})
			}
			t.Steps = append(t.Steps, Step{Op: "add", K: 1, Kind: "api", Data: "sync"}, Step{Op: "snap", Node: -1}, Step{Op: "join"},
				Step{Op: "inst", Node: n, Kind: "", K: 0}, Step{Op: "add", K: 1 + rng.IntN(2), Kind: "api", Data: "sync"}, Step{Op: "agree"})
		case 1:
			// a transfer breaks after at least one batch and the follower is then
			// caught up by a different leader that still holds the entries
			victim := rng.IntN(n)
			t.Steps = append(t.Steps, Step{Op: "add", K: 1 + rng.IntN(3), Kind: "api", Data: "sync"},
				Step{Op: "stop", Node: victim, Kind: pick(rng, prof.stopModes)},
				Step{Op: "add", K: 1 + rng.IntN(3), Kind: "api", Data: "sync"},
				Step{Op: "add", K: 1, Kind: "api", Data: "sync"},
				Step{Op: "add", K: 1 + rng.IntN(2), Kind: "api", Data: "sync"},
				Step{Op: "snap", Node: -1},
				Step{Op: "start", Node: victim},
				Step{Op: "inst", Node: victim, Kind: "stream-fail", K: 1 + rng.IntN(2)},
				Step{Op: "elect", Node: (victim + 1 + rng.IntN(n-1)) % n},
				Step{Op: "add", K: 1, Kind: "api", Data: "sync"},
				Step{Op: "rep", Node: victim, K: 8}, Step{Op: "rep", Node: victim, K: 8}, Step{Op: "apply", Node: victim, K: 64},
				Step{Op: "add", K: 1 + rng.IntN(3), Kind: "api", Data: "sync"},
				Step{Op: "rep", Node: victim, K: 8}, Step{Op: "apply", Node: victim, K: 64},
				Step{Op: "agree"})
		}
	}
	for i := 0; i < steps; i++ {
		x := rng.IntN(total)
		var op string
		for _, k := range kinds {
			if x < w[k] {
				op = k
				break
			}
			x -= w[k]
		}
		node := rng.IntN(n)
		switch op {
		case "add":
			s := Step{Op: "add", K: 1, Kind: "api", X: int64(pick(rng, prof.digestKind)), Data: pick(rng, prof.pumps)}
			if rng.IntN(2) == 0 {
				s.K = 1 + rng.IntN(8)
			}
			if s.X == 1 {
				s.Kind = "raw"
				s.Y = int64(rng.IntN(256))
				if rng.IntN(3) == 0 {
					s.Y = int64(200 + rng.IntN(56))
				}
			} else if rng.IntN(3) == 0 {
				s.Kind = "raw"
			} else if rng.IntN(4) == 0 {
				s.Kind = "http"
			}
			t.Steps = append(t.Steps, s)
		case "rep":
			t.Steps = append(t.Steps, Step{Op: "rep", Node: node, K: 1 + rng.IntN(6)})
		case "apply":
			t.Steps = append(t.Steps, Step{Op: "apply", Node: node, K: 1 + rng.IntN(6)})
		case "snap":
			t.Steps = append(t.Steps, Step{Op: "snap", Node: node})
		case "stop":
			t.Steps = append(t.Steps, Step{Op: "stop", Node: node, Kind: pick(rng, prof.stopModes)})
			if rng.IntN(3) == 0 { // bias: something happens while it is down
				t.Steps = append(t.Steps, Step{Op: "add", K: 1 + rng.IntN(4), Kind: "api", Data: "sync"})
			}
		case "start":
			t.Steps = append(t.Steps, Step{Op: "start", Node: node})
		case "elect":
			t.Steps = append(t.Steps, Step{Op: "elect", Node: node})
		case "arm":
			t.Steps = append(t.Steps, Step{Op: "arm", Node: node, Kind: pick(rng, prof.armPoints), K: 1 + rng.IntN(2)})
			// place the fault inside an operation that creates in-flight state
			t.Steps = append(t.Steps, Step{Op: "add", K: 1 + rng.IntN(3), Kind: "api", Data: "sync"})
		case "inst":
			t.Steps = append(t.Steps, Step{Op: "inst", Node: node, Kind: pick(rng, prof.instFaults), K: rng.IntN(3)})
		case "lag":
			// follower left behind past compaction: stop, add, snapshot on leader, start
			t.Steps = append(t.Steps, Step{Op: "stop", Node: node, Kind: pick(rng, prof.stopModes)},
				Step{Op: "add", K: 1 + rng.IntN(5), Kind: "api", Data: "sync"},
				Step{Op: "add", K: 1 + rng.IntN(3), Kind: "api", Data: "sync"},
				Step{Op: "snap", Node: -1},
				Step{Op: "start", Node: node})
		case "laginst":
			// a follower falls behind past compaction and is then brought back by a
			// state transfer that meets a fault; afterwards either the same leader
			// retries or a new term begins / the follower restarts
			t.Steps = append(t.Steps, Step{Op: "stop", Node: node, Kind: pick(rng, prof.stopModes)},
				Step{Op: "add", K: 1 + rng.IntN(4), Kind: "api", Data: "sync"},
				Step{Op: "add", K: 1 + rng.IntN(3), Kind: "api", Data: "sync"},
				Step{Op: "add", K: 1 + rng.IntN(2), Kind: "api", Data: "sync"},
				Step{Op: "snap", Node: -1},
				Step{Op: "start", Node: node},
				Step{Op: "inst", Node: node, Kind: pick(rng, prof.instFaults), K: rng.IntN(3)})
			switch rng.IntN(6) {
			case 0:
				t.Steps = append(t.Steps, Step{Op: "stop", Node: node, Kind: "crash"}, Step{Op: "start", Node: node})
			case 1, 2, 3:
				// another node takes over: it may still hold the entries the
				// follower lacks and bring it up by plain replication
				t.Steps = append(t.Steps, Step{Op: "elect", Node: (node + 1 + rng.IntN(n-1+boolInt(n == 1))) % n})
			case 4:
				t.Steps = append(t.Steps, Step{Op: "inst", Node: node, Kind: "", K: 0})
			}
			t.Steps = append(t.Steps, Step{Op: "add", K: 1 + rng.IntN(3), Kind: "api", Data: "sync"})
		case "join":
			t.Steps = append(t.Steps, Step{Op: "join"})
		case "qmem":
			t.Steps = append(t.Steps, Step{Op: "qmem", Node: node, K: 6 + rng.IntN(20)})
		case "qinc":
			t.Steps = append(t.Steps, Step{Op: "qinc", Node: node, K: 6 + rng.IntN(20)})
		case "agree":
			t.Steps = append(t.Steps, Step{Op: "agree"})
		case "qver":
			t.Steps = append(t.Steps, Step{Op: "qver", Node: node})
		case "gapfetch":
			t.Steps = append(t.Steps, Step{Op: "gapfetch", K: rng.IntN(4), X: int64(rng.IntN(3))})
		default:
			if op != "" {
				t.Steps = append(t.Steps, Step{Op: op, Node: node, K: rng.IntN(8), X: int64(rng.IntN(1 << 16))})
			}
		}
	}
	t.Steps = append(t.Steps, Step{Op: "heal"})
	return t
}

// ---- tape interpreter --------------------------------------------------------

func (w *worldA) node(i int) *simNode {
	if i < 0 {
		if w.e.leader >= 0 {
			return w.e.nodes[w.e.leader]
		}
		return nil
	}
	if i >= len(w.e.nodes) {
		i = i % len(w.e.nodes)
	}
	return w.e.nodes[i]
}

func (w *worldA) newEvent() []byte {
	w.evCount++
	return []byte(fmt.Sprintf("s%d-e%d", w.r.Tape.Seed, w.evCount))
}

// makeDigests draws the digests of one add step from its own sub-PRNG.
func (w *worldA) makeDigests(s Step, allowCrafted bool) (events [][]byte, digests [][]byte) {
	rng := w.r.StepRng("digests")
	for j := 0; j < s.K; j++ {
		if s.X == 2 && w.e.rlog.Len() > 0 && j == 0 { // repeat an earlier event
			d := w.e.rlog.Digests[rng.IntN(int(w.e.rlog.Len()))]
			if ev, ok := w.events[string(d)]; ok {
				events = append(events, ev)
				digests = append(digests, d)
				continue
			}
			if allowCrafted {
				events = append(events, nil)
				digests = append(digests, d)
				continue
			}
		}
		switch {
		case s.X == 1 && allowCrafted && w.e.rlog.Len() > 0:
			// share a prefix of Y bits with an earlier digest, differ at bit Y
			base := w.e.rlog.Digests[rng.IntN(int(w.e.rlog.Len()))]
			d := append([]byte{}, base...)
			bit := int(s.Y) % 256
			d[bit/8] ^= 1 << uint(7-bit%8)
			for b := bit + 1; b < 256; b++ {
				if rng.IntN(2) == 0 {
					d[b/8] ^= 1 << uint(7-b%8)
				}
			}
			if w.e.rlog.Has(d) || containsDigest(digests, d) {
				ev := w.newEvent()
				events = append(events, ev)
				digests = append(digests, sha(ev))
				continue
			}
			events = append(events, nil)
			digests = append(digests, d)
		default:
			ev := w.newEvent()
			events = append(events, ev)
			digests = append(digests, sha(ev))
		}
	}
	for i, d := range digests {
		if events[i] != nil {
			w.events[string(d)] = events[i]
		}
	}
	return
}

func containsDigest(ds [][]byte, d []byte) bool {
	for _, x := range ds {
		if bytes.Equal(x, d) {
			return true
		}
	}
	return false
}

// step interprets one generic World A step; returns false if the op is unknown here.
func (w *worldA) step(s Step) bool {
	e := w.e
	switch s.Op {
	case "elect":
		nd := w.node(s.Node)
		if nd != nil && nd.up {
			if e.elect(nd) {
				// a new leader applies nothing by itself; replication/apply are separate steps
			}
		}
	case "add":
		w.doAdd(s)
	case "bigadd":
		for rem := s.K; rem > 0; {
			k := 150
			if k > rem {
				k = rem
			}
			w.doAdd(Step{Op: "add", K: k, Kind: "raw", Data: "sync"})
			rem -= k
			if w.e.leader < 0 {
				break
			}
		}
		e.r.Count("probe.big_log")
	case "rep":
		nd := w.node(s.Node)
		if nd != nil {
			e.replicate(nd, s.K, "", 0)
		}
	case "apply":
		nd := w.node(s.Node)
		if nd != nil {
			for i := 0; i < s.K && e.applyOne(nd); i++ {
			}
		}
	case "snap":
		nd := w.node(s.Node)
		if nd != nil {
			e.takeSnapshot(nd, uint64(w.r.Cfg("trailing")))
		}
	case "stop":
		nd := w.node(s.Node)
		if nd != nil {
			e.stopNode(nd, s.Kind)
		}
	case "start":
		nd := w.node(s.Node)
		if nd != nil {
			e.startNode(nd)
		}
	case "arm":
		nd := w.node(s.Node)
		if nd != nil && nd.up {
			nd.store.armed = &armedFault{point: s.Kind, nth: s.K}
		}
	case "inst":
		nd := w.node(s.Node)
		if nd != nil {
			e.replicate(nd, 4, s.Kind, s.K)
		}
	case "join":
		if e.leader >= 0 && len(e.nodes) < 5 {
			nd := e.addNode(true)
			e.startNode(nd)
			l := e.nodes[e.leader]
			l.nextIndex[nd.id] = l.lastIndex() + 1
			l.matchIndex[nd.id] = 0
			e.proposeOn(l, raft.LogConfiguration, []byte(fmt.Sprintf("join %s", nd.name)))
			e.r.Count("fault.join_new_node")
		}
	case "heal":
		w.heal()
	default:
		return false
	}
	return true
}

func (w *worldA) doAdd(s Step) {
	e := w.e
	l := w.node(-1)
	target := l
	if s.Node > 0 && s.Kind != "raw" { // sometimes addressed to a non-leader
		target = w.node(s.Node)
	}
	if target == nil || !target.up {
		return
	}
	events, digests := w.makeDigests(s, s.Kind == "raw")
	if len(digests) == 0 {
		return
	}
	e.pumpKind = s.Data
	rng := w.r.StepRng("pump")
	e.pumpRng = func(n int) int { return rng.IntN(n) }
	defer func() { e.pumpKind, e.pumpRng = "", nil }()
	var snaps []*balloon.Snapshot
	var err error
	switch s.Kind {
	case "raw":
		if l == nil || !l.up {
			return
		}
		hd := make([]hashing.Digest, len(digests))
		for i := range digests {
			hd[i] = digests[i]
		}
		f := e.proposeOn(l, raft.LogCommand, consensus.SimEncodeAdd(hd))
		var resp interface{}
		resp, err = e.pump(l, f)
		if err == nil {
			snaps, err = consensus.SimResponse(resp)
		}
	case "http":
		snaps, err = w.httpAdd(target, events)
	default:
		cp := Capture(func() {
			if len(events) == 1 {
				var sn *balloon.Snapshot
				sn, err = target.rn.Add(events[0])
				if sn != nil {
					snaps = []*balloon.Snapshot{sn}
				}
			} else {
				snaps, err = target.rn.AddBulk(events)
			}
		})
		if cp != nil {
			e.failPanic(target, "AddBulk", cp)
		}
		if target.up {
			w.drainChannel(target, snaps, err)
		}
	}
	w.r.Logf("add %s x%d via %s on %s -> %d snapshots, err=%v", s.Data, len(digests), s.Kind, target.name, len(snaps), err)
	if err != nil {
		w.unacked++
		w.r.Count("adds.unacked")
		return
	}
	w.r.Count("adds.acked")
	w.checkAck(target, digests, snaps)
}

// drainChannel: every snapshot of an acknowledged add is handed to the sender
// channel exactly once, in order (C17 hand-off, anchored in consensus/fsm.go).
func (w *worldA) drainChannel(nd *simNode, snaps []*balloon.Snapshot, err error) {
	var got []*protocol.Snapshot
	for {
		select {
		case p := <-nd.ch:
			got = append(got, p)
			continue
		default:
		}
		break
	}
	if w.r.Prop != "C17" && w.r.Prop != "C05" {
		return
	}
	if err != nil {
		if len(got) != 0 {
			w.r.Fail("sender-handoff", "a failed add on %s handed %d snapshots to the sender", nd.name, len(got))
		}
		return
	}
	if len(got) != len(snaps) {
		w.r.Fail("sender-handoff", "an add acknowledged with %d snapshots handed %d to the sender", len(snaps), len(got))
	}
	for i := range got {
		if got[i].Version != snaps[i].Version || !bytes.Equal(got[i].HistoryDigest, snaps[i].HistoryDigest) ||
			!bytes.Equal(got[i].HyperDigest, snaps[i].HyperDigest) || !bytes.Equal(got[i].EventDigest, snaps[i].EventDigest) {
			w.r.Fail("sender-handoff", "snapshot %d handed to the sender differs from the one acknowledged", snaps[i].Version)
		}
	}
}

// checkAck: what an acknowledged add returned vs R-log and the reference trees
// (C04 digests, C05 dense versions).
func (w *worldA) checkAck(nd *simNode, digests [][]byte, snaps []*balloon.Snapshot) {
	if len(snaps) != len(digests) {
		w.r.Fail("ack-shape", "add of %d events on %s acknowledged with %d snapshots", len(digests), nd.name, len(snaps))
	}
	for i, sn := range snaps {
		if sn == nil {
			w.r.Fail("ack-shape", "nil snapshot in acknowledgement")
		}
		if !bytes.Equal(sn.EventDigest, digests[i]) {
			w.r.Fail("ack-digest", "snapshot %d of the acknowledgement carries digest %x, the request had %x", i, sn.EventDigest[:4], digests[i][:4])
		}
		if i > 0 && sn.Version != snaps[i-1].Version+1 {
			w.r.Fail("ack-dense", "bulk acknowledged with versions %d then %d", snaps[i-1].Version, sn.Version)
		}
		if !w.e.rlog.InsertedAt(digests[i], sn.Version) {
			w.r.Fail("ack-version", "acknowledged version %d for digest %x, but the committed log holds it at %v", sn.Version, digests[i][:4], w.e.rlog.versions[string(digests[i])])
		}
		if prev, ok := w.acked[sn.Version]; ok && !bytes.Equal(prev.EventDigest, sn.EventDigest) {
			w.r.Fail("ack-twice", "version %d acknowledged twice for different events", sn.Version)
		}
		w.acked[sn.Version] = sn
	}
	w.r.Distinct(fmt.Sprintf("ack:%d:%d", len(snaps), snaps[0].Version))
}

// checkApplied runs after every Apply of a committed command on any node.
func (w *worldA) checkApplied(nd *simNode, idx uint64, ce *committedEntry, snaps []*balloon.Snapshot, aerr error) {
	r := w.r
	want := w.e.eventsThrough(idx)
	prev := w.e.eventsThrough(idx - 1)
	post := nd.rn.SimBalloonVersion()
	if !ce.isAdd {
		return
	}
	if snaps == nil {
		// skipped as already applied: the node must already hold these events
		r.Count("probe.replay_skipped")
		if post < want {
			r.Fail("exactly-once", "node %s skipped committed entry %d (%v) but holds only %d events, the log has %d after it", nd.name, idx, aerr, post, want)
		}
		return
	}
	if post != want {
		r.Fail("exactly-once", "node %s applied entry %d and now holds %d events; the committed log has %d after it (before it: %d)", nd.name, idx, post, want, prev)
	}
	if len(snaps) != ce.m {
		r.Fail("apply-shape", "node %s: entry %d has %d events, apply returned %d snapshots", nd.name, idx, ce.m, len(snaps))
	}
	for i, sn := range snaps {
		v := ce.base + uint64(i)
		if sn.Version != v {
			r.Fail("dense-versions", "node %s: event %d of entry %d got version %d, the committed log position is %d", nd.name, i, idx, sn.Version, v)
		}
		if !bytes.Equal(sn.EventDigest, w.e.rlog.Digests[v]) {
			r.Fail("dense-versions", "node %s: snapshot %d carries the wrong event digest", nd.name, v)
		}
		if ref := w.e.rlog.Hist.Root(v); !bytes.Equal(sn.HistoryDigest, ref) {
			r.Fail("canonical-history", "node %s: history digest of version %d is %x, reference tree gives %x", nd.name, v, sn.HistoryDigest[:6], ref[:6])
		}
		if ref, ok := w.e.rlog.HyperAt[ce.base+uint64(ce.m)-1]; ok && !w.e.rlog.Repeated() {
			if !bytes.Equal(sn.HyperDigest, ref) {
				r.Fail("canonical-hyper", "node %s: hyper digest after version %d is %x, reference tree gives %x", nd.name, ce.base+uint64(ce.m)-1, sn.HyperDigest[:6], ref[:6])
			}
		}
		if first, ok := w.e.issued[v]; ok {
			if !bytes.Equal(first.HistoryDigest, sn.HistoryDigest) || !bytes.Equal(first.HyperDigest, sn.HyperDigest) {
				r.Fail("replica-digests", "node %s computed different digests for version %d than another replica did", nd.name, v)
			}
		} else {
			w.e.issued[v] = sn
		}
	}
	if nd.seqAfter == nil {
		nd.seqAfter = map[uint64]uint64{}
	}
	nd.seqAfter[post] = nd.raw.LastWALSequenceNumber()
	r.Count("oracle.apply_checked")
}

// heal: faults stop; everything is delivered; the cluster must converge within
// a step budget (bounded liveness), then replicas must agree.
func (w *worldA) heal() {
	e := w.e
	r := w.r
	for _, nd := range e.nodes {
		if nd.up && nd.store != nil {
			nd.store.armed = nil
		}
		e.startNode(nd)
	}
	budget := 200 + 20*int(e.maxCommitted+uint64(len(e.pending)))
	for round := 0; round < budget; round++ {
		if e.leader < 0 {
			elected := false
			for _, nd := range e.nodes {
				if e.elect(nd) {
					elected = true
					break
				}
			}
			if !elected {
				r.Fail("liveness", "after faults stopped no node can win an election")
			}
		}
		progress := false
		for _, nd := range e.nodes {
			if nd.id != e.leader {
				if x := e.replicate(nd, 64, "", 0); x == "entries" || x == "install-ok" || x == "reject" {
					progress = true
				}
			}
		}
		for _, nd := range e.nodes {
			for e.applyOne(nd) {
				progress = true
			}
		}
		l := e.nodes[e.leader]
		done := l.lastApplied == l.lastLogIdx
		for _, nd := range e.nodes {
			if nd.lastApplied != l.lastApplied || l.matchIndex[nd.id] != l.lastLogIdx && nd != l {
				done = false
			}
		}
		if done {
			r.Logf("healed after %d rounds", round+1)
			return
		}
		_ = progress
	}
	l := e.nodes[e.leader]
	st := ""
	for _, nd := range e.nodes {
		st += fmt.Sprintf(" %s(applied=%d commit=%d last=%d next=%d)", nd.name, nd.lastApplied, nd.commitIndex, nd.lastIndex(), l.nextIndex[nd.id])
	}
	r.Fail("liveness", "cluster did not converge within %d rounds after faults stopped:%s", budget, st)
}

// ---- state dumps / agreement --------------------------------------------------

func dumpTable(s storage.Store, t storage.Table) (string, int) {
	h := sha256.New()
	n := 0
	for _, kv := range readAll(s, t, 512) {
		fmt.Fprintf(h, "%d:%x=%d:%x;", len(kv.Key), kv.Key, len(kv.Value), kv.Value)
		n++
	}
	return hex.EncodeToString(h.Sum(nil))[:16], n
}

type nodeDump struct {
	version uint64
	tables  [4]string
	counts  [4]int
}

var dumpTables = []storage.Table{storage.HyperTable, storage.HyperCacheTable, storage.HistoryTable, storage.FSMStateTable}

func (w *worldA) dump(nd *simNode) nodeDump {
	var d nodeDump
	d.version = nd.rn.SimBalloonVersion()
	for i, t := range dumpTables {
		d.tables[i], d.counts[i] = dumpTable(nd.raw, t)
	}
	return d
}

// checkAgreement: any two running nodes that applied the same last command are
// in the same state (C06), and that state is R-log's.
func (w *worldA) checkAgreement(oracle string) {
	e := w.e
	type key struct{ idx uint64 }
	groups := map[uint64][]*simNode{}
	for _, nd := range e.nodes {
		if nd.up && nd.pendingInstall != 0 && !nd.tainted {
			// a state transfer to this node failed part-way and has not been
			// retried yet: it has not "applied the log up to some entry"; the
			// heal phase must bring it back (liveness oracle).
			w.r.Count("probe.agreement_skipped_midtransfer")
			continue
		}
		if nd.up {
			// Group by the last *command* the node holds: trailing noops do not
			// count. A restarted node durably holds more than raft has re-applied
			// in this incarnation, so the persisted FSM index is the position; it
			// may never be behind what raft applied in this incarnation.
			si, _ := nd.rn.SimState()
			lc := w.lastCmdIndex(nd)
			if si < lc {
				w.r.Fail(oracle, "node %s applied the log up to command entry %d but its persisted state says entry %d", nd.name, lc, si)
			}
			if ce := e.committed[si]; si != 0 && (ce == nil || !ce.isAdd) {
				w.r.Fail(oracle, "node %s persisted state names entry %d, which is not a committed insertion", nd.name, si)
			}
			groups[si] = append(groups[si], nd)
		}
	}
	var idxs []uint64
	for k := range groups {
		idxs = append(idxs, k)
	}
	sort.Slice(idxs, func(i, j int) bool { return idxs[i] < idxs[j] })
	for _, idx := range idxs {
		g := groups[idx]
		var d0 nodeDump
		for i, nd := range g {
			d := w.dump(nd)
			if want := e.eventsThrough(idx); d.version != want {
				w.r.Fail(oracle, "node %s applied the log up to entry %d and holds %d events; the committed log has %d", nd.name, idx, d.version, want)
			}
			if i == 0 {
				d0 = d
				continue
			}
			for t := range dumpTables {
				if d.tables[t] != d0.tables[t] {
					w.r.Fail(oracle, "nodes %s and %s both applied the log up to entry %d but their %s tables differ (%d vs %d entries)", g[0].name, nd.name, idx, dumpTables[t], d0.counts[t], d.counts[t])
				}
			}
			w.r.Count("oracle.pair_compared")
		}
	}
}

func (w *worldA) lastCmdIndex(nd *simNode) uint64 {
	idx := nd.lastApplied
	for idx > 0 {
		ce := w.e.committed[idx]
		if ce != nil && ce.isAdd {
			return idx
		}
		idx--
	}
	return 0
}

// ---- wire helpers --------------------------------------------------------------

// membershipOverWire pushes a proof through the public JSON form, as server and
// client do, and returns the client-side proof.
func membershipOverWire(r *Run, key []byte, mp *balloon.MembershipProof) *balloon.MembershipProof {
	mr := protocol.ToMembershipResult(key, mp)
	b, err := json.Marshal(mr)
	if err != nil {
		r.Fail("wire", "cannot encode membership result: %v", err)
	}
	var back protocol.MembershipResult
	if err := json.Unmarshal(b, &back); err != nil {
		r.Fail("wire", "cannot decode membership result: %v", err)
	}
	return protocol.ToBalloonProof(&back, hashing.NewSha256Hasher)
}

func incrementalOverWire(r *Run, ip *balloon.IncrementalProof) *balloon.IncrementalProof {
	ir := protocol.ToIncrementalResponse(ip)
	b, err := json.Marshal(ir)
	if err != nil {
		r.Fail("wire", "cannot encode incremental response: %v", err)
	}
	var back protocol.IncrementalResponse
	if err := json.Unmarshal(b, &back); err != nil {
		r.Fail("wire", "cannot decode incremental response: %v", err)
	}
	return protocol.ToIncrementalProof(&back, hashing.NewSha256Hasher)
}

// authenticHyper returns the authentic hyper digest of the state with cv as
// current version: the reference tree's when defined, else the first issued.
func (w *worldA) authenticHyper(cv uint64) []byte {
	if !w.e.rlog.Repeated() {
		if d, ok := w.e.rlog.HyperAt[cv]; ok {
			return d
		}
	}
	if s, ok := w.e.issued[cv]; ok {
		return s.HyperDigest
	}
	return nil
}

func boolInt(b bool) int {
	if b {
		return 1
	}
	return 0
}
