package qedsim

import (
	"fmt"
	"strings"
	"testing"
	"testing/synctest"
)

// executeInBubble runs one tape inside a testing/synctest bubble (fake clock,
// quiescence detection). The end-of-bubble "deadlock" panic — QED goroutines
// that never exit, e.g. bus subscribers — is expected and recovered.
func executeInBubble(t *testing.T, p *Property, tape *Tape, verbose bool) (res *Result) {
	defer func() {
		if x := recover(); x != nil {
			s := fmt.Sprint(x)
			if strings.Contains(s, "deadlock") && res != nil {
				return
			}
			panic(x)
		}
	}()
	synctest.Test(t, func(t *testing.T) {
		res = execute(p, tape, verbose)
	})
	return res
}
