package qedsim

// Simulated HTTP for Worlds C/D: an in-memory http.RoundTripper that routes by
// host to in-process handlers (the real apihttp mux over a simulated cluster
// view, a snapshot store, an alert sink), with a per-host fault mode that only
// the harness changes. Answers are pure functions of (host mode, request), so
// concurrent requests (health checks) cannot make a run diverge.

import (
	"bytes"
	"encoding/json"
	"errors"
	"fmt"
	"io"
	"net/http"
	"net/http/httptest"
	"sort"
	"strings"
	"sync"
	"time"

	"github.com/bbva/qed/api/apihttp"
	"github.com/bbva/qed/balloon"
	"github.com/bbva/qed/consensus"
	"github.com/bbva/qed/crypto/hashing"
	"github.com/bbva/qed/protocol"
	"github.com/bbva/qed/storage"
	"github.com/bbva/qed/storage/bplus"
	"github.com/hashicorp/raft"
)

// ---- a real QED log behind the simulated servers ------------------------------

// simLog is one real balloon over the in-memory store: the content every node
// of the simulated cluster serves. Adds go through the node that is leader.
type simLog struct {
	mu      sync.Mutex
	st      *bplus.BPlusTreeStore
	b       *balloon.Balloon
	ref     *RLog
	snaps   []*balloon.Snapshot // issued snapshot per version
	execBy  []string            // which node executed the add of each version
	forkAt  int64               // -1: honest
	tamper  func(path string, body []byte) []byte
	lg      *simLogger
	addsLog []string
}

func newSimLog() *simLog {
	st := bplus.NewBPlusTreeStore()
	lg := newSimLogger()
	b, err := balloon.NewBalloonWithLogger(st, hashing.NewSha256Hasher, lg)
	if err != nil {
		panic(harnessPanic{"simLog: " + err.Error()})
	}
	return &simLog{st: st, b: b, ref: NewRLog(), forkAt: -1, lg: lg}
}

func (l *simLog) add(node string, events [][]byte) ([]*balloon.Snapshot, error) {
	l.mu.Lock()
	defer l.mu.Unlock()
	ds := make([]hashing.Digest, len(events))
	raw := make([][]byte, len(events))
	for i, e := range events {
		ds[i] = sha(e)
		raw[i] = ds[i]
	}
	snaps, muts, err := l.b.AddBulk(ds)
	if err != nil {
		return nil, err
	}
	if err := l.st.Mutate(muts, nil); err != nil {
		return nil, err
	}
	l.ref.Append(raw)
	for _, s := range snaps {
		l.snaps = append(l.snaps, s)
		l.execBy = append(l.execBy, node)
	}
	l.addsLog = append(l.addsLog, fmt.Sprintf("%s:%d", node, len(events)))
	return snaps, nil
}

func (l *simLog) version() uint64 { return l.b.Version() }

// simNodeAPI is what one simulated server exposes to the real apihttp mux.
type simNodeAPI struct {
	name string
	log  *simLog
	view *clusterView
}

// clusterView is the simulator's knowledge of the cluster.
type clusterView struct {
	mu     sync.Mutex
	leader string
	nodes  []string // names; HTTP address is name+":8800"
	up     map[string]bool
}

func (v *clusterView) isLeader(n string) bool {
	v.mu.Lock()
	defer v.mu.Unlock()
	return v.leader == n
}

func (a *simNodeAPI) Add(event []byte) (*balloon.Snapshot, error) {
	if !a.view.isLeader(a.name) {
		return nil, raft.ErrNotLeader
	}
	s, err := a.log.add(a.name, [][]byte{event})
	if err != nil {
		return nil, err
	}
	return s[0], nil
}
func (a *simNodeAPI) AddBulk(bulk [][]byte) ([]*balloon.Snapshot, error) {
	if !a.view.isLeader(a.name) {
		return nil, raft.ErrNotLeader
	}
	if len(bulk) == 0 {
		return nil, errors.New("empty bulk")
	}
	return a.log.add(a.name, bulk)
}
func (a *simNodeAPI) QueryDigestMembershipConsistency(d hashing.Digest, v uint64) (*balloon.MembershipProof, error) {
	return a.log.b.QueryDigestMembershipConsistency(d, v)
}
func (a *simNodeAPI) QueryMembershipConsistency(e []byte, v uint64) (*balloon.MembershipProof, error) {
	return a.log.b.QueryMembershipConsistency(e, v)
}
func (a *simNodeAPI) QueryDigestMembership(d hashing.Digest) (*balloon.MembershipProof, error) {
	return a.log.b.QueryDigestMembership(d)
}
func (a *simNodeAPI) QueryMembership(e []byte) (*balloon.MembershipProof, error) {
	return a.log.b.QueryMembership(e)
}
func (a *simNodeAPI) QueryConsistency(s, e uint64) (*balloon.IncrementalProof, error) {
	return a.log.b.QueryConsistency(s, e)
}
func (a *simNodeAPI) Info() *consensus.NodeInfo {
	return &consensus.NodeInfo{NodeId: a.name, HttpAddr: a.name + ":8800", RaftAddr: a.name + ":8500", MgmtAddr: a.name + ":8700"}
}
func (a *simNodeAPI) IsLeader() bool { return a.view.isLeader(a.name) }
func (a *simNodeAPI) ClusterInfo() *consensus.ClusterInfo {
	a.view.mu.Lock()
	defer a.view.mu.Unlock()
	ci := &consensus.ClusterInfo{Nodes: map[string]*consensus.NodeInfo{}}
	if a.view.leader == "" {
		return ci
	}
	ci.LeaderId = a.view.leader
	for _, n := range a.view.nodes {
		if a.view.up[n] {
			ci.Nodes[n] = &consensus.NodeInfo{NodeId: n, HttpAddr: n + ":8800"}
		}
	}
	return ci
}

var _ apihttp.ClientApi = (*simNodeAPI)(nil)

// ---- the network --------------------------------------------------------------

type reqRecord struct {
	seq     int // global order of request starts and completions
	doneSeq int
	at      time.Duration
	done    time.Duration
	host    string
	method  string
	path    string
	key     string
	body    []byte
	status  int
	err     string
	resp    []byte
	kind    string // write | read | health | discovery | store | alert | other
}

type simHost struct {
	name    string
	mode    string // ok | down | e500 | e400 | slow | trunc
	delay   time.Duration
	handler http.Handler
}

type simHTTP struct {
	mu     sync.Mutex
	start  time.Time
	hosts  map[string]*simHost
	reqs   []reqRecord
	seq    int
	budget int // round trips allowed for the current call (0 = unlimited)
	inCall int
	tamper func(host, path string, status int, body []byte) (int, []byte)
	onReq  func(rec *reqRecord)
	logf   func(format string, a ...interface{})
}

// callBudgetExceeded is thrown from RoundTrip when a single client call makes
// more round trips than any terminating implementation could need.
type callBudgetExceeded struct{ n int }

func newSimHTTP() *simHTTP {
	return &simHTTP{start: time.Now(), hosts: map[string]*simHost{}}
}

func (n *simHTTP) addHost(name string, h http.Handler) *simHost {
	sh := &simHost{name: name, mode: "ok", handler: h}
	n.hosts[name] = sh
	return sh
}

func classify(method, path string) string {
	switch {
	case strings.HasPrefix(path, "/events"):
		return "write"
	case strings.HasPrefix(path, "/proofs/"):
		return "read"
	case path == "/healthcheck":
		return "health"
	case path == "/info/shards" || path == "/info":
		return "discovery"
	case strings.HasPrefix(path, "/snapshot") || strings.HasPrefix(path, "/batch"):
		return "store"
	case strings.HasPrefix(path, "/alert"):
		return "alert"
	}
	return "other"
}

func (n *simHTTP) RoundTrip(req *http.Request) (*http.Response, error) {
	var body []byte
	if req.Body != nil {
		body, _ = io.ReadAll(req.Body)
		req.Body.Close()
	}
	host := req.URL.Host
	n.mu.Lock()
	n.seq++
	rec := reqRecord{seq: n.seq, at: time.Since(n.start), host: host, method: req.Method, path: req.URL.Path, key: req.Header.Get("Api-Key"), body: body, kind: classify(req.Method, req.URL.Path)}
	if req.URL.RawQuery != "" {
		rec.path += "?" + req.URL.RawQuery
	}
	n.inCall++
	over := n.budget > 0 && n.inCall > n.budget
	sh := n.hosts[host]
	mode, delay := "down", time.Duration(0)
	if sh != nil {
		mode, delay = sh.mode, sh.delay
	}
	n.mu.Unlock()
	if over {
		panic(callBudgetExceeded{n.inCall})
	}
	finish := func(resp *http.Response, err error) (*http.Response, error) {
		if err != nil {
			rec.err = err.Error()
		} else {
			rec.status = resp.StatusCode
		}
		rec.done = time.Since(n.start)
		n.mu.Lock()
		n.seq++
		rec.doneSeq = n.seq
		n.reqs = append(n.reqs, rec)
		cb := n.onReq
		n.mu.Unlock()
		if cb != nil {
			cb(&rec)
		}
		return resp, err
	}
	if mode == "slow" {
		select {
		case <-req.Context().Done():
			return finish(nil, req.Context().Err())
		case <-time.After(delay):
		}
		mode = "ok"
	}
	switch mode {
	case "down":
		return finish(nil, fmt.Errorf("dial tcp %s: connect: connection refused", host))
	case "e500":
		return finish(mkResp(req, 503, []byte("service unavailable"), nil), nil)
	case "e400":
		return finish(mkResp(req, 400, []byte("bad request"), nil), nil)
	}
	rr := httptest.NewRecorder()
	r2 := httptest.NewRequest(req.Method, req.URL.String(), bytes.NewReader(body))
	r2.Header = req.Header.Clone()
	cp := Capture(func() { sh.handler.ServeHTTP(rr, r2) })
	if cp != nil {
		// net/http would drop the connection
		return finish(nil, fmt.Errorf("EOF (server handler panicked: %v)", cp.Value))
	}
	res := rr.Result()
	rb, _ := io.ReadAll(res.Body)
	status := res.StatusCode
	if n.tamper != nil {
		status, rb = n.tamper(host, req.URL.Path, status, rb)
	}
	if mode == "trunc" && len(rb) > 2 {
		rb = rb[:len(rb)/2]
	}
	rec.resp = rb
	return finish(mkResp(req, status, rb, res.Header), nil)
}

func mkResp(req *http.Request, status int, body []byte, h http.Header) *http.Response {
	if h == nil {
		h = http.Header{}
	}
	return &http.Response{StatusCode: status, Status: fmt.Sprintf("%d %s", status, http.StatusText(status)), Proto: "HTTP/1.1", ProtoMajor: 1, ProtoMinor: 1,
		Header: h, Body: io.NopCloser(bytes.NewReader(body)), ContentLength: int64(len(body)), Request: req}
}

// take returns and clears the requests recorded so far, in canonical order for
// equal time stamps.
func (n *simHTTP) take() []reqRecord {
	n.mu.Lock()
	r := n.reqs
	n.reqs = nil
	n.mu.Unlock()
	sort.SliceStable(r, func(i, j int) bool {
		if r[i].at != r[j].at {
			return r[i].at < r[j].at
		}
		if r[i].kind == "health" && r[j].kind == "health" {
			return r[i].host < r[j].host
		}
		return r[i].seq < r[j].seq
	})
	return r
}

func (n *simHTTP) beginCall(budget int) {
	n.mu.Lock()
	n.inCall, n.budget = 0, budget
	n.mu.Unlock()
}

// ---- snapshot store + alert sink (simulated services) --------------------------

type simSnapshotStore struct {
	mu      sync.Mutex
	snaps   map[uint64]*protocol.SignedSnapshot
	puts    map[string]int // signature -> number of times stored
	batches int
	down    bool
	alter   func(v uint64, s *protocol.SignedSnapshot) *protocol.SignedSnapshot
}

func newSimSnapshotStore() *simSnapshotStore {
	return &simSnapshotStore{snaps: map[uint64]*protocol.SignedSnapshot{}, puts: map[string]int{}}
}

func (s *simSnapshotStore) PutBatch(b *protocol.BatchSnapshots) error {
	s.mu.Lock()
	defer s.mu.Unlock()
	if s.down {
		return errors.New("snapshot store unavailable")
	}
	s.batches++
	for _, ss := range b.Snapshots {
		if ss == nil || ss.Snapshot == nil {
			continue
		}
		s.snaps[ss.Snapshot.Version] = ss
		s.puts[string(ss.Signature)]++
	}
	return nil
}
func (s *simSnapshotStore) PutSnapshot(version uint64, snapshot *protocol.SignedSnapshot) error {
	return s.PutBatch(&protocol.BatchSnapshots{Snapshots: []*protocol.SignedSnapshot{snapshot}})
}
func (s *simSnapshotStore) GetRange(start, end uint64) ([]protocol.SignedSnapshot, error) {
	return nil, errors.New("not implemented")
}
func (s *simSnapshotStore) GetSnapshot(version uint64) (*protocol.SignedSnapshot, error) {
	s.mu.Lock()
	defer s.mu.Unlock()
	if s.down {
		return nil, errors.New("snapshot store unavailable")
	}
	ss, ok := s.snaps[version]
	if !ok {
		return nil, fmt.Errorf("snapshot %d not found", version)
	}
	if s.alter != nil {
		return s.alter(version, ss), nil
	}
	return ss, nil
}
func (s *simSnapshotStore) DeleteRange(start, end uint64) error { return nil }
func (s *simSnapshotStore) Count() (uint64, error) {
	s.mu.Lock()
	defer s.mu.Unlock()
	return uint64(len(s.snaps)), nil
}

// ServeHTTP lets the real client's GetSnapshot reach the store (GET /snapshot?v=N).
func (s *simSnapshotStore) ServeHTTP(w http.ResponseWriter, r *http.Request) {
	var v uint64
	fmt.Sscanf(r.URL.Query().Get("v"), "%d", &v)
	ss, err := s.GetSnapshot(v)
	if err != nil {
		http.Error(w, err.Error(), http.StatusNotFound)
		return
	}
	b, _ := json.Marshal(ss)
	w.WriteHeader(200)
	w.Write(b)
}

type simNotifier struct {
	mu     sync.Mutex
	alerts []string
}

func (n *simNotifier) Alert(msg string) error {
	n.mu.Lock()
	n.alerts = append(n.alerts, msg)
	n.mu.Unlock()
	return nil
}
func (n *simNotifier) Start() {}
func (n *simNotifier) Stop()  {}
func (n *simNotifier) count() int {
	n.mu.Lock()
	defer n.mu.Unlock()
	return len(n.alerts)
}

var _ storage.Store = (*bplus.BPlusTreeStore)(nil)
