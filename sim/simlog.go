package qedsim

import (
	"fmt"
	"io"
	stdlog "log"

	qlog "github.com/bbva/qed/log"
)

// fatalSentinel is thrown instead of os.Exit(1) when QED code calls Fatal/Fatalf.
type fatalSentinel struct{ msg string }

func (f fatalSentinel) String() string { return "log.Fatal: " + f.msg }

// simLogger is a silent log.Logger whose Fatal does not exit the process.
type simLogger struct{ sink func(level, msg string) }

func newSimLogger() *simLogger { return &simLogger{} }

func (l *simLogger) emit(level, msg string) {
	if l.sink != nil {
		l.sink(level, msg)
	}
}
func (l *simLogger) Trace(msg string)                       {}
func (l *simLogger) Tracef(format string, a ...interface{}) {}
func (l *simLogger) Debug(msg string)                       {}
func (l *simLogger) Debugf(format string, a ...interface{}) {}
func (l *simLogger) Info(msg string)                        { l.emit("info", msg) }
func (l *simLogger) Infof(format string, a ...interface{})  { l.emit("info", fmt.Sprintf(format, a...)) }
func (l *simLogger) Warn(msg string)                        { l.emit("warn", msg) }
func (l *simLogger) Warnf(format string, a ...interface{})  { l.emit("warn", fmt.Sprintf(format, a...)) }
func (l *simLogger) Error(msg string)                       { l.emit("error", msg) }
func (l *simLogger) Errorf(format string, a ...interface{}) {
	l.emit("error", fmt.Sprintf(format, a...))
}
func (l *simLogger) Fatal(msg string) { panic(fatalSentinel{msg}) }
func (l *simLogger) Fatalf(format string, a ...interface{}) {
	panic(fatalSentinel{fmt.Sprintf(format, a...)})
}
func (l *simLogger) Panic(msg string)                       { panic(msg) }
func (l *simLogger) Panicf(format string, a ...interface{}) { panic(fmt.Sprintf(format, a...)) }
func (l *simLogger) Named(name string) qlog.Logger          { return l }
func (l *simLogger) ResetNamed(name string) qlog.Logger     { return l }
func (l *simLogger) WithLevel(level qlog.Level) qlog.Logger { return l }
func (l *simLogger) StdLogger(*qlog.StdLoggerOptions) *stdlog.Logger {
	return stdlog.New(io.Discard, "", 0)
}
func (l *simLogger) StdWriter(*qlog.StdLoggerOptions) io.Writer { return io.Discard }
