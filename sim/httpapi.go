package qedsim

// In-process HTTP: the real apihttp / mgmthttp muxes over a real RaftNode, with
// the cluster-info methods (which need a live raft) supplied by the simulator.

import (
	"bytes"
	"encoding/json"
	"fmt"
	"net/http"
	"net/http/httptest"

	"github.com/bbva/qed/api/apihttp"
	"github.com/bbva/qed/api/mgmthttp"
	"github.com/bbva/qed/balloon"
	"github.com/bbva/qed/consensus"
	"github.com/bbva/qed/protocol"
)

type nodeAPI struct {
	*consensus.RaftNode
	nd *simNode
}

func (a nodeAPI) IsLeader() bool { return a.nd.env.leader == a.nd.id && a.nd.role == roleLeader }

func (a nodeAPI) Info() *consensus.NodeInfo {
	return &consensus.NodeInfo{NodeId: a.nd.name, HttpAddr: "http://" + a.nd.name, RaftAddr: a.nd.name + ":raft", MgmtAddr: a.nd.name + ":mgmt"}
}

func (a nodeAPI) ClusterInfo() *consensus.ClusterInfo {
	ci := &consensus.ClusterInfo{Nodes: map[string]*consensus.NodeInfo{}}
	e := a.nd.env
	if e.leader < 0 {
		return ci
	}
	ci.LeaderId = e.nodes[e.leader].name
	for _, nd := range e.nodes {
		if nd.up && nd.inConfig {
			ci.Nodes[nd.name] = nodeAPI{nd.rn, nd}.Info()
		}
	}
	return ci
}

func (nd *simNode) apiMux() *http.ServeMux  { return apihttp.NewApiHttp(nodeAPI{nd.rn, nd}) }
func (nd *simNode) mgmtMux() *http.ServeMux { return mgmthttp.NewMgmtHttp(nd.rn) }

// serve runs one request through a handler the way net/http would: a panic
// escaping ServeHTTP is returned (net/http would drop the connection).
func serve(h http.Handler, method, path string, body []byte) (rec *httptest.ResponseRecorder, cp *CapturedPanic) {
	var rd *bytes.Reader
	var req *http.Request
	if body != nil {
		rd = bytes.NewReader(body)
		req = httptest.NewRequest(method, path, rd)
	} else {
		req = httptest.NewRequest(method, path, nil)
	}
	req.Header.Set("Content-Type", "application/json")
	rec = httptest.NewRecorder()
	cp = Capture(func() { h.ServeHTTP(rec, req) })
	return rec, cp
}

func (w *worldA) httpAdd(nd *simNode, events [][]byte) ([]*balloon.Snapshot, error) {
	var body []byte
	path := "/events"
	if len(events) == 1 {
		body, _ = json.Marshal(&protocol.Event{Event: events[0]})
	} else {
		path = "/events/bulk"
		body, _ = json.Marshal(&protocol.EventsBulk{Events: events})
	}
	rec, cp := serve(nd.apiMux(), "POST", path, body)
	if cp != nil {
		w.e.failPanic(nd, "HTTP "+path, cp)
	}
	var snaps []*balloon.Snapshot
	if nd.up {
		defer func() { w.drainChannel(nd, snaps, nil) }()
	}
	if rec.Code != http.StatusCreated {
		snaps = nil
		if nd.up {
			// drain whatever was handed over
			for len(nd.ch) > 0 {
				<-nd.ch
			}
		}
		return nil, fmt.Errorf("HTTP %d: %s", rec.Code, trunc(rec.Body.String(), 120))
	}
	if len(events) == 1 {
		var s protocol.Snapshot
		if err := json.Unmarshal(rec.Body.Bytes(), &s); err != nil {
			w.r.Fail("wire", "201 response to /events does not decode: %v", err)
		}
		bs := balloon.Snapshot(s)
		snaps = []*balloon.Snapshot{&bs}
	} else {
		var ss []*protocol.Snapshot
		if err := json.Unmarshal(rec.Body.Bytes(), &ss); err != nil {
			w.r.Fail("wire", "201 response to /events/bulk does not decode: %v", err)
		}
		for _, s := range ss {
			bs := balloon.Snapshot(*s)
			snaps = append(snaps, &bs)
		}
	}
	return snaps, nil
}
