"""Per-property configuration shared by ./check and gen_manifest.py."""

REAL_VS_STUB = {
    "bplus": "real storage/bplus.BPlusTreeStore",
    "rocks": "real storage/rocks.RocksDBStore + rocksdb cgo wrapper on system librocksdb 7.8.3 (hook H1 shim for 3 renamed/removed C symbols)",
    "raftlog": "real consensus.raftLog (raft LogStore+StableStore on RocksDB) via hook H2 NewSimRaftLog",
    "balloon": "real balloon, balloon/history, balloon/hyper, balloon/cache, SHA-256",
    "fsm": "real consensus.RaftNode FSM half (Apply, applyAdd, shouldApply, loadState, Snapshot, Persist, Restore, AddBulk, Query*, FetchSnapshot server+client side, chunkReader, backups) built by hook H2 NewSimRaftNode",
    "raft": "STUB: hashicorp/raft replaced by the single-threaded consensus environment (sim/env.go); conformance-tested against the real library",
    "grpc": "STUB: gRPC FetchSnapshot transport replaced by in-memory stream implementing the generated interfaces",
    "apihttp": "real api/apihttp and api/mgmthttp handlers invoked in-process (ServeHTTP, no sockets)",
    "protocol": "real protocol JSON forms / gossip.Message / consensus.command encodings",
    "client": "real client.HTTPClient (topology, retrier, backoff, health checks) over a simulated http.RoundTripper",
    "sender": "real server.Sender + crypto/sign ed25519",
    "gossip": "real gossip.Agent (Send, route, buses, delegates), Topology, PeerList, BatchProcessor, SimpleTasksManager via hook H3",
    "memberlist": "STUB: hashicorp/memberlist replaced by the simulated gossip network",
    "agents": "real cmd auditor/monitor/publisher task factories via hook H4",
    "services": "STUB: snapshot store and alert notifier are simulated implementations of gossip.SnapshotStore / gossip.Notifier",
    "http": "STUB: HTTP transport is an in-memory RoundTripper routing to in-process handlers or scripted servers",
}

_WORLD_A = ["balloon", "fsm", "rocks", "raftlog", "raft", "grpc", "apihttp", "protocol"]
_WORLD_A_ASSUME = [
    "hashicorp/raft is replaced by a single-threaded consensus environment that issues only FSM/log-store calls raft v1.1.1 can issue (DESIGN.md §5.4)",
    "process-crash model: a completed RocksDB write survives, nothing below the RocksDB C API is injected",
    "reference history/sparse trees (sim/ref.go) are the specification of the digests; SHA-256 is shared with the repo",
]


def _wa(quick_seeds=160, thorough_seeds=4000, chunk=8):
    return {
        "quick": {"seeds": quick_seeds, "chunk": chunk, "wall_s": 420, "worker_timeout_s": 600},
        "thorough": {"seeds": thorough_seeds, "chunk": 20, "wall_s": 2400, "worker_timeout_s": 1800},
    }


PROPS = {
    "C01": dict({
        "level": "exploration",
        "technique": "deterministic simulation: seeded workloads and fault schedules on a simulated cluster of real FSMs/RocksDB; client verifier judged against independent reference trees",
        "design_ref": "DESIGN.md §7 C01",
        "level_text": "Seeded exploration of event sequences (single/bulk adds via API, HTTP handler and crafted commands; SHA-256, shared-prefix and repeated digests) interleaved with restarts, leadership changes, compaction and state transfer; after the run and at seeded points every running replica is asked for membership proofs for sampled (event, version) pairs (all pairs when the log is small), the answer is pushed through the JSON wire and must verify against digests computed by independent reference trees.",
        "level_note": "Trusted: reference trees (calibrated, golden vectors), SHA-256, the consensus environment's fidelity to raft. Sampled, not exhaustive.",
        "rule": "one evaluation = one seeded tape on a 1- or 3-node simulated cluster; distinct = distinct (log size, event, query version) triples verified plus distinct tapes; non-trivial = log of at least 3 events",
        "components": _WORLD_A, "assumptions": _WORLD_A_ASSUME,
    }, **_wa()),
    "C03": dict({
        "level": "exploration",
        "technique": "deterministic simulation: seeded workloads and fault schedules on a simulated cluster; incremental proofs judged against reference trees, forks and tampering injected on the wire",
        "design_ref": "DESIGN.md §7 C03",
        "level_text": "Seeded exploration: for states reached as in C01, consistency proofs for sampled (i,j) pairs (all pairs for small logs) served by any running replica must verify after the JSON wire against reference history digests, and must be rejected with another version's digest, with the digest of a forked log (divergence point sampled over 0..j), and with altered Start/End/audit-path entries; invalid ranges must be refused.",
        "level_note": "Trusted: reference history tree, SHA-256, environment fidelity. Sampled, not exhaustive.",
        "rule": "one evaluation = one seeded tape; distinct = distinct (log size, i, j) triples verified plus distinct tapes; non-trivial = log of at least 3 events",
        "components": _WORLD_A, "assumptions": _WORLD_A_ASSUME,
    }, **_wa()),
    "C04": dict({
        "level": "exploration",
        "technique": "deterministic simulation: every digest issued by any replica under seeded fault schedules compared with independent reference Merkle trees; regrouped twin runs on both store back-ends; tiny-LRU history tree",
        "design_ref": "DESIGN.md §7 C04",
        "level_text": "Every snapshot returned by every apply on every replica (after restarts, crashes, elections, state transfer) is compared with an independent reference history tree (per version) and reference sparse tree (per call boundary). The distinct-event sequence is then replayed with a different single/bulk partition into balloons over the B+tree and a fresh RocksDB store, and through a history tree with LRU capacity 1..300; all digests must equal the references.",
        "level_note": "Trusted: the reference trees (written from the construction, calibrated once, golden vectors), SHA-256. Hyper comparison is switched off after the first repeated event of a run (property restricts itself to distinct events).",
        "rule": "one evaluation = one seeded tape (cluster run + regrouped twins + LRU run); distinct = distinct tapes and (sequence length, LRU) pairs; non-trivial = at least 3 events",
        "components": _WORLD_A + ["bplus"], "assumptions": _WORLD_A_ASSUME,
    }, **_wa()),
    "C05": dict({
        "level": "exploration",
        "technique": "deterministic simulation with fault injection: crashes before/after store writes, store errors, elections, lost proposals and lost acknowledgements; dense-version oracle against the single-copy log model",
        "design_ref": "DESIGN.md §7 C05",
        "level_text": "Seeded schedules of adds (API, HTTP, crafted), replication/apply interleavings, restarts, elections, leadership lost before commit, lost acknowledgements and armed crash/error points at the store seam. Oracles: every apply returns exactly the versions the committed-log position dictates with the right event digests; every entry is applied exactly once per durable state (replays skipped, nothing skipped otherwise); acknowledged versions match the committed log; each node's version, persisted FSM state, highest history leaf and the CurrentVersion of its proofs agree.",
        "level_note": "Trusted: single-copy log model, environment fidelity. Crash = process kill; no torn writes.",
        "rule": "one evaluation = one seeded tape; distinct = distinct tapes and acknowledgement shapes; non-trivial = at least 3 accepted events",
        "components": _WORLD_A, "assumptions": _WORLD_A_ASSUME,
    }, **_wa()),
    "C06": dict({
        "level": "exploration",
        "technique": "deterministic simulation: seeded replication/apply interleavings with follower stop/restart, elections and joins on a 3-node simulated cluster; pairwise table dumps and cross-replica proof verification",
        "design_ref": "DESIGN.md §7 C06",
        "level_text": "At seeded points and after a final heal phase (bounded number of rounds once faults stop) any two running replicas whose last applied command is the same must have byte-identical Hyper, HyperCache, History and FSM-state tables and the same version; membership and consistency proofs served by every replica must verify against the reference digests that the leader's snapshots were checked against; replicas computing a snapshot for the same version must agree.",
        "level_note": "Trusted: environment fidelity to raft (no two leaders at once; partitions modelled as undelivered events).",
        "rule": "one evaluation = one seeded tape on 3 (+joiner) nodes; distinct = distinct tapes plus verified (size,event,version) and (size,i,j) triples; non-trivial = at least 3 events",
        "components": _WORLD_A, "assumptions": _WORLD_A_ASSUME,
    }, **_wa()),
    "C07": dict({
        "level": "fault_enumeration",
        "technique": "deterministic simulation, fault enumeration: every crash point (before/after each store write, each step boundary, each transfer chunk, the persist/Restore gap) of seeded workloads, each followed by restart, replay and comparison with never-crashed replicas and reference trees",
        "design_ref": "DESIGN.md §7 C07",
        "level_text": "For each seeded workload of c commands the check enumerates every crash placement: crash (and injected store error, which QED turns into a crash) before and after the store write of apply #1..#c on the leader or a follower, at every command boundary, optionally a second crash during recovery replay, and for 3-node workloads a crash or stream failure at every chunk of a state transfer plus the gap between persisting the installed snapshot and Restore, each with both continuations raft allows (same leader re-installs; new term appends directly). After each: restart, replay of all committed entries, then the recovered node must hold exactly the committed log (exactly-once oracle on every apply), equal the never-crashed replicas table by table, serve verifying proofs, keep every acknowledged snapshot, and return reference snapshots for later adds. The crash-point space of each workload is covered completely; workloads are sampled.",
        "level_note": "Crash = process kill with surviving OS (completed RocksDB writes survive; in-flight write all-or-nothing). SIGKILL at arbitrary wall-clock instants inside librocksdb is not simulated.",
        "rule": "one evaluation = one seeded workload with its complete crash-point sweep (8-60 scenarios, each a fresh simulated cluster); distinct = distinct (workload, scenario) pairs; non-trivial = scenario in which the fault fired or a restart happened",
        "components": _WORLD_A, "assumptions": _WORLD_A_ASSUME,
        "quick": {"seeds": 32, "chunk": 1, "wall_s": 480, "worker_timeout_s": 900},
        "thorough": {"seeds": 800, "chunk": 4, "wall_s": 3000, "worker_timeout_s": 2400},
    }),
    "C08": dict({
        "level": "fault_enumeration",
        "technique": "deterministic simulation, fault enumeration: clean stop + reopen at every point of seeded workloads vs never-stopped replicas and reference trees; worker process abort (librocksdb assertions) observed by the parent",
        "design_ref": "DESIGN.md §7 C08",
        "level_text": "For each seeded workload the check enumerates every stop point 0..c: RaftNode.Close(true) on the leader or a follower, reopen on the same directories, then the rest of the workload. The reopened node must be indistinguishable: every later apply returns the reference snapshots, its tables equal the never-stopped replicas', its proofs verify. Shutdown must complete: Close must return nil, the directory must be reopenable (LOCK released), and the process must not abort — the checks run against the assertion-enabled system librocksdb, a worker killed by SIGABRT/SIGSEGV is reported as the violation with the tape of the seed it was running, confirmed by a fresh-process replay.",
        "level_note": "Resource leaks are observable only through librocksdb's own destructor assertions and the LOCK file; Go-side leaks that RocksDB does not assert on are not detected.",
        "rule": "one evaluation = one seeded workload with its complete stop-point sweep; distinct = distinct (workload, stop point) pairs; non-trivial = a node was really closed and reopened",
        "components": _WORLD_A, "assumptions": _WORLD_A_ASSUME,
        "abort_is_violation": True,
        "quick": {"seeds": 96, "chunk": 3, "wall_s": 420, "worker_timeout_s": 900},
        "thorough": {"seeds": 1600, "chunk": 8, "wall_s": 2400, "worker_timeout_s": 2400},
    }),
    "C09": dict({
        "level": "exploration",
        "technique": "deterministic simulation with fault injection: forced log compaction, state transfer to lagging and brand-new nodes with stream failures, crashes mid-load and leader loss; convergence and in-memory-state oracles",
        "design_ref": "DESIGN.md §7 C09",
        "level_text": "Schedules force compaction (trailing 0-2) and bring lagging, restarted or brand-new followers up to date through the real FetchSnapshot/chunkReader/LoadSnapshot path, with stream failure after k chunks, crash mid-load, leader stop and crash between persisting the snapshot and Restore. After a successful transfer the follower's tables must equal the leader's, its proofs (which exercise its in-memory hyper cache) must verify against reference digests, and every later apply on it must produce the reference digests; after faults stop the cluster must converge within a bounded number of rounds.",
        "level_note": "Trusted: environment fidelity (install order persist-then-Restore, same-leader re-install vs new-term direct append, conformance-tested).",
        "rule": "one evaluation = one seeded tape on 3 (+joiner) nodes; distinct = distinct tapes plus verified proof triples; non-trivial = at least 3 events",
        "components": _WORLD_A, "assumptions": _WORLD_A_ASSUME,
    }, **_wa()),
    "C17": {
        "level": "exploration",
        "technique": "deterministic simulation in a testing/synctest bubble (fake clock, one stimulus then quiescence): real server.Sender batchers and timers under seeded arrival patterns; conservation and signature-binding oracles",
        "design_ref": "DESIGN.md §7 C17",
        "level_text": "The real Sender (batch size 1-20, 1-8 concurrent batchers, interval 10-250 ms, real ed25519 signer) runs on the bubble's fake clock; the harness feeds snapshots with seeded arrival patterns (bursts, trickle slower than the interval, exactly-full batches, arrivals coinciding with timer expiry), one stimulus at a time. Two intervals after arrivals stop every fed snapshot must have left the sender in exactly one batch of 1..BatchSize entries with the configured TTL, unaltered, with a signature that verifies; single-field/bit alterations of snapshot or signature must make verification fail. The FSM-to-sender hand-off is checked in the C05 runs (oracle sender-handoff).",
        "level_note": "Which batcher receives which snapshot is decided by the Go runtime among goroutines woken by one stimulus; the prototype measurement (DESIGN.md §2) showed behaviour is digest-stable under the one-stimulus rule. Trusted: synctest's fake clock.",
        "rule": "one evaluation = one seeded arrival tape (20-80 stimuli quick, 60-360 thorough); distinct = distinct (tape, batch size, batchers, interval); non-trivial = at least 3 snapshots fed",
        "components": ["sender", "gossip", "protocol"],
        "assumptions": ["testing/synctest fake clock and quiescence detection are sound", "ed25519 from x/crypto"],
        "quick": {"seeds": 600, "chunk": 40, "wall_s": 240},
        "thorough": {"seeds": 20000, "chunk": 400, "wall_s": 1800},
        "gc_off": False, "gomaxprocs": 4,
    },
    "C14": {
        "level": "exploration",
        "technique": "deterministic simulation: seeded op/reopen tapes on both real back-ends vs per-table sorted-map model, ddmin-minimised replayable tapes",
        "design_ref": "DESIGN.md §7 C14",
        "level_text": "Seeded exploration: generated Mutate/Get/GetRange/GetAll/GetLast/close+reopen sequences run on the real B+tree and real RocksDB stores and are compared after every operation with a sorted map per table. Samples op histories and key shapes; not exhaustive.",
        "level_note": "Trusted: the map model, RocksDB itself. Crash model is close+reopen in-process (no torn/lost file writes below the RocksDB C API).",
        "rule": "one evaluation = one seeded tape (12-62 ops quick, 40-400 thorough) executed on both back-ends; distinct = distinct tapes; non-trivial = at least 3 reads that returned a non-empty result from the model",
        "components": ["bplus", "rocks"],
        "assumptions": ["process-crash model only: no torn or lost writes below the RocksDB C API", "the per-table sorted map is the specification"],
        "quick": {"seeds": 400, "chunk": 25, "wall_s": 240},
        "thorough": {"seeds": 6000, "chunk": 100, "wall_s": 1800},
        "gc_off": False,
    },
    "C15": {
        "level": "exploration",
        "technique": "deterministic simulation: seeded op/reopen tapes on the real RocksDB-backed raft log store vs map model, ddmin-minimised replayable tapes",
        "design_ref": "DESIGN.md §7 C15",
        "level_text": "Seeded exploration: generated StoreLog/StoreLogs/GetLog/DeleteRange/FirstIndex/LastIndex/Set/Get/SetUint64/GetUint64/close+reopen sequences on the real consensus.raftLog compared after every operation with a map model (indexes around 0, 1, 2^32, 2^63 and 2^64-40; all LogTypes; payloads 0-64KB; Extensions). The same store is also exercised organically as the log of every simulated cluster node (C05-C09).",
        "level_note": "Trusted: the map model, RocksDB itself. Crash model is close+reopen.",
        "rule": "one evaluation = one seeded tape (12-62 ops quick, 40-400 thorough); distinct = distinct tapes; non-trivial = at least 3 reads/deletes that touched stored entries",
        "components": ["raftlog"],
        "assumptions": ["process-crash model only: no torn or lost writes below the RocksDB C API", "the map model is the specification"],
        "quick": {"seeds": 400, "chunk": 25, "wall_s": 240},
        "thorough": {"seeds": 6000, "chunk": 100, "wall_s": 1800},
        "gc_off": False,
    },
}

# Properties not (yet) claimed; each is removed from here by being added to PROPS.
_PENDING = "check not built yet in this session; planned with this technique (DESIGN.md §7)"
NOT_APPLICABLE = {("C%02d" % i): _PENDING for i in range(1, 21)}
