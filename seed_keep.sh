#!/bin/bash
# Confirms a seeded change in its scratch worktree (demo fails with the change,
# passes without it, tree builds, pinned tests pass) and archives it under
# /verif/seeded/<id>/ .  ./seed_keep.sh <id> <worktree> <go|go1.26.8> [-tags verif]
set -u
id=$1; wt=$2; gobin=$3; shift 3; goflags="$*"
export GOFLAGS=-mod=mod GOPROXY=off GOSUMDB=off GOTOOLCHAIN=local
cd "$wt" || exit 2
[ -f patch.diff ] || { echo "no patch.diff"; exit 2; }
git apply -R --check patch.diff 2>/dev/null || git apply patch.diff 2>/dev/null
echo "== build with the change"; go1.26.8 build -tags verif ./... 2>&1 | tail -3
echo "== demo WITH the change (must fail)"; $gobin test $goflags -count=1 ./demo/ > /tmp/mut/$id.with.txt 2>&1; rcw=$?; tail -3 /tmp/mut/$id.with.txt
git apply -R patch.diff || exit 2
echo "== demo WITHOUT the change (must pass)"; $gobin test $goflags -count=1 ./demo/ > /tmp/mut/$id.without.txt 2>&1; rco=$?; tail -3 /tmp/mut/$id.without.txt
git apply patch.diff
echo "== pinned tests with the change"; go test -mod=mod -vet=off -count=1 ./client/ ./crypto/... ./gossip/ ./log/ ./storage/bplus/ ./testutils/spec/ 2>&1 | grep -v "^ok\|no test files" | tail -5; pin=$?
echo "demo with=$rcw without=$rco"
if [ $rcw -ne 0 ] && [ $rco -eq 0 ]; then
  mkdir -p /verif/seeded/$id && cp patch.diff /verif/seeded/$id/ && rm -rf /verif/seeded/$id/demo && cp -r demo /verif/seeded/$id/demo
  # demo files must not be compiled by anything under /verif: store them as text
  find /verif/seeded/$id/demo -name '*.go' -exec mv {} {}.txt \;
  echo "CONFIRMED and archived in /verif/seeded/$id"
else
  echo "NOT CONFIRMED"
fi
