#!/bin/bash
# ./run_some.sh <tier> <Cxx>...  — like run_all.sh for a subset.
tier=$1; shift
cd "$(dirname "$0")"
for p in "$@"; do
  s=$(date +%s)
  out=$(./check $p $tier 2>&1); rc=$?
  echo "$p rc=$rc $(( $(date +%s)-s ))s $(echo "$out" | grep -c '^VIOLATION') violations | $(echo "$out" | grep "^$p $tier" | cut -c1-160)"
  echo "$out" | grep -A1 "violation oracle" | head -6
  echo "$out" | grep -A3 "^MACHINERY" | head -12 | cut -c1-300
done
