#!/bin/bash
# Runs every registered check of one tier and prints one summary line per check.
tier=${1:-quick}
cd /verif
for p in $(python3 -c "from props import PROPS; print(' '.join(sorted(PROPS)))"); do
  s=$(date +%s)
  out=$(./check $p $tier 2>&1); rc=$?
  echo "$p rc=$rc $(( $(date +%s)-s ))s $(echo "$out" | grep -c '^VIOLATION') violations $(echo "$out" | grep -c 'KNOWN-FINDING') known | $(echo "$out" | grep "^$p $tier" | cut -c1-110)"
done
