#!/bin/bash
# Applies a seeded change to /repo, runs the given checks against it and undoes
# the change straight afterwards. Never commits anything in /repo.
#   ./mut_test.sh <patch.diff> <tier> <Cxx> [<Cyy> ...]
# Prints one line per check: CAUGHT (exit 1 + VIOLATION), MISSED (exit 0) or
# TROUBLE (exit 2).
set -u
patch=$1; tier=$2; shift 2
cd /verif
if ! git -C /repo diff --quiet; then echo "/repo has uncommitted changes; refusing"; exit 2; fi
if ! git -C /repo apply --check "$patch" 2>/dev/null; then echo "patch does not apply: $patch"; exit 2; fi
git -C /repo apply "$patch"
trap 'git -C /repo checkout -- . ; git -C /repo clean -fdq -- . >/dev/null 2>&1' EXIT
for p in "$@"; do
  s=$(date +%s)
  out=$(./check $p $tier 2>&1); rc=$?
  case $rc in
    1) verdict=CAUGHT;;
    0) verdict=MISSED;;
    *) verdict=TROUBLE;;
  esac
  echo "$verdict $p ($tier, $(( $(date +%s)-s ))s): $(echo "$out" | grep -m1 'violation oracle' | cut -c1-300)"
  if [ $rc -ge 2 ]; then echo "$out" | tail -5 | cut -c1-300; fi
done
